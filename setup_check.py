#!/venv/bin/python
"""MANIFEST.setup_cmd: nothing to build; verify that the offline environment has
what the checks import and that flowdyn resolves to /repo's working tree."""
import os
import sys

HERE = os.path.dirname(os.path.abspath(__file__))
sys.path.insert(0, HERE)
import numpy  # noqa
import scipy  # noqa
from sim.core import use_repo

p = use_repo()
import sim.driver  # noqa
import sim.gen  # noqa
import sim.run  # noqa
import sim.shrink  # noqa
os.makedirs(os.path.join(HERE, "evidence"), exist_ok=True)
os.makedirs(os.path.join(HERE, "replays"), exist_ok=True)
print("setup ok: numpy %s, flowdyn from %s" % (numpy.__version__, p))
