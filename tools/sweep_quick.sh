#!/bin/bash
for seed in ${SWEEP_SEEDS:-1 2 3 4 5 6 7 8 9 10 11 12 13 14 15 16}; do
  for p in C07 C08; do
    VERIF_SEED=$seed /venv/bin/python check.py $p --tier quick --no-evidence > sweep_${p}_${seed}.log 2>&1
    echo "seed=$seed $p rc=$? $(tail -n 1 sweep_${p}_${seed}.log)"
  done
done
