#!/venv/bin/python
"""Development tool: run both checks against every kept refactors change.

For each /verif/refactors/<id>/patch.diff: copy /repo's tracked flowdyn/ sources to a
scratch directory under /var/tmp, apply the patch there, run the checks with
FLOWDYN_REPO pointing at it, remove the scratch copy.  /repo is never touched.
Usage: run_refactors.py [id ...] [--runs07=N] [--runs08=N] [--jobs=J]"""
import concurrent.futures as cf
import json
import os
import re
import shutil
import subprocess
import sys

VERIF = os.path.dirname(os.path.dirname(os.path.abspath(__file__)))


def one(args):
    sid, runs = args
    root = "/var/tmp/flowdyn-refac-%s" % sid
    shutil.rmtree(root, ignore_errors=True)
    os.makedirs(root)
    try:
        subprocess.run("cd /repo && git ls-files -z flowdyn | xargs -0 cp --parents -t %s" % root, shell=True, check=True)
        # the patch is relative to the commit it was written against; apply with plain patch(1)
        r = subprocess.run("cd %s && patch -p1 --no-backup-if-mismatch < %s/refactors/%s/patch.diff" % (root, VERIF, sid),
                           shell=True, capture_output=True, text=True)
        if r.returncode != 0:
            return sid, {"error": "patch does not apply: " + r.stdout[-300:]}
        res = {}
        for prop in ("C07", "C08"):
            env = dict(os.environ, FLOWDYN_REPO=root, VERIF_REPLAY_DIR=root + "-replays")
            p = subprocess.run([sys.executable, os.path.join(VERIF, "check.py"), prop, "--runs", str(runs[prop]),
                                "--no-evidence", "--no-selftest", "--workers", str(runs["workers"])],
                               capture_output=True, text=True, env=env, cwd=VERIF)
            inv = re.findall(r"^  invariant (\w+): (.*)$", p.stdout, re.M)
            res[prop] = {"rc": p.returncode, "runs": runs[prop], "invariants": [i[0] for i in inv],
                         "first_detail": inv[0][1][:240] if inv else "",
                         "summary": p.stdout.strip().splitlines()[-1] if p.stdout.strip() else p.stderr[-200:]}
        return sid, res
    finally:
        shutil.rmtree(root, ignore_errors=True)
        shutil.rmtree(root + "-replays", ignore_errors=True)


def main():
    ids = [a for a in sys.argv[1:] if not a.startswith("--")]
    runs = {"C07": 20000, "C08": 9000, "workers": 4}
    jobs = 4
    for a in sys.argv[1:]:
        if a.startswith("--runs07="):
            runs["C07"] = int(a[9:])
        if a.startswith("--runs08="):
            runs["C08"] = int(a[9:])
        if a.startswith("--jobs="):
            jobs = int(a[7:])
    all_ids = sorted(d for d in os.listdir(os.path.join(VERIF, "refactors"))
                     if os.path.exists(os.path.join(VERIF, "refactors", d, "patch.diff")))
    ids = ids or all_ids
    out = {}
    with cf.ThreadPoolExecutor(max_workers=jobs) as ex:
        for sid, res in ex.map(one, [(i, runs) for i in ids]):
            out[sid] = res
            if "error" in res:
                print("%-8s ERROR %s" % (sid, res["error"]), flush=True)
                continue
            print("%-8s C07 rc=%d %-12s | C08 rc=%d %-12s" % (sid, res["C07"]["rc"], ",".join(res["C07"]["invariants"]),
                                                       res["C08"]["rc"], ",".join(res["C08"]["invariants"])), flush=True)
    json.dump(out, open("/var/tmp/refactors_results.json", "w"), indent=1)


if __name__ == "__main__":
    main()
