#!/bin/bash
# Development tool: replay the schedules that once raised FALSE alarms on the unchanged tree
# (found by soaks and sweeps, DESIGN 9).  Each must now "not reproduce" (replay.py exit 3).
cd "$(dirname "$0")/.."
bad=0
for f in regress/*.json; do
  /venv/bin/python replay.py "$f" > /dev/null 2>&1
  rc=$?
  if [ $rc -ne 3 ]; then echo "REGRESSION: $f replays with exit $rc"; bad=1; else echo "ok   $f"; fi
done
exit $bad
