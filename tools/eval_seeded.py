#!/venv/bin/python
"""Development tool: confirm a sub-agent's seeded defect independently and run the
checks against it.  eval_seeded.py <src dir with patch.diff/demo.py/notes.md> <id> [--runs N] [--keep]

Everything happens in a scratch git worktree of /repo under /var/tmp, removed at the end."""
import json
import os
import re
import shutil
import subprocess
import sys

VERIF = os.path.dirname(os.path.dirname(os.path.abspath(__file__)))


def sh(cmd, env=None, cwd=None, timeout=3000):
    r = subprocess.run(cmd, shell=True, capture_output=True, text=True, env=env, cwd=cwd, timeout=timeout)
    return r.returncode, (r.stdout + r.stderr)


def main():
    src, sid = sys.argv[1], sys.argv[2]
    runs = {"C07": 20000, "C08": 9000}
    skip_suite = "--skip-suite" in sys.argv
    for a in sys.argv[3:]:
        if a.startswith("--runs="):
            runs = {"C07": int(a[7:]), "C08": int(a[7:])}
    wt = "/var/tmp/seed-%s" % sid
    sh("git -C /repo worktree remove --force %s" % wt)
    shutil.rmtree(wt, ignore_errors=True)
    rc, o = sh("git -C /repo worktree add --detach %s HEAD" % wt)
    assert rc == 0, o
    meta = {"id": sid, "source": src}
    try:
        env = dict(os.environ, PYTHONPATH=wt)
        shutil.copy(os.path.join(src, "demo.py"), os.path.join(wt, "_demo.py"))
        rc0, o0 = sh("/venv/bin/python _demo.py", env=env, cwd=wt, timeout=300)
        meta["demo_without_change"] = {"rc": rc0, "tail": o0.strip()[-300:]}
        rc, o = sh("git apply %s" % os.path.join(src, "patch.diff"), cwd=wt)
        meta["patch_applies"] = (rc == 0)
        if rc != 0:
            meta["apply_error"] = o[-500:]
            print(json.dumps(meta, indent=1))
            return
        rc1, o1 = sh("/venv/bin/python _demo.py", env=env, cwd=wt, timeout=300)
        meta["demo_with_change"] = {"rc": rc1, "tail": o1.strip()[-300:]}
        rc, o = sh("/venv/bin/python -c 'import flowdyn; print(flowdyn.__file__)'", env=env, cwd=wt)
        meta["imports_from"] = o.strip()
        if not skip_suite:
            rc, o = sh("timeout 2400 /venv/bin/python -m pytest -q -p no:cacheprovider --timeout=900 tests/ 2>&1 | tail -3",
                       env=env, cwd=wt)
            m = re.search(r"(\d+) passed", o)
            meta["suite"] = {"passed": int(m.group(1)) if m else 0, "failed": "failed" in o, "tail": o.strip()[-200:]}
        os.remove(os.path.join(wt, "_demo.py"))
        sh("find %s -name __pycache__ -type d -prune -exec rm -rf {} +" % wt)
        checks = {}
        for prop in ("C07", "C08"):
            env2 = dict(os.environ, FLOWDYN_REPO=wt, VERIF_REPLAY_DIR=wt + "-replays")
            rc, o = sh("%s %s/check.py %s --runs %d --no-evidence --no-selftest" % (sys.executable, VERIF, prop, runs[prop]),
                       env=env2, cwd=VERIF)
            inv = re.findall(r"^  invariant (\w+): (.*)$", o, re.M)
            checks[prop] = {"rc": rc, "runs": runs[prop], "invariants": [i[0] for i in inv],
                            "first_detail": inv[0][1][:300] if inv else "", "summary": o.strip().splitlines()[-1] if o.strip() else ""}
        meta["checks"] = checks
        meta["caught"] = any(c["rc"] == 1 for c in checks.values())
        meta["confirmed"] = bool(meta["patch_applies"] and rc0 == 0 and rc1 != 0 and
                                 (skip_suite or (meta["suite"]["passed"] >= 105 and not meta["suite"]["failed"])))
        print(json.dumps(meta, indent=1))
        json.dump(meta, open("/var/tmp/seed-%s.meta.json" % sid, "w"), indent=1)
    finally:
        sh("git -C /repo worktree remove --force %s" % wt)
        shutil.rmtree(wt, ignore_errors=True)
        shutil.rmtree(wt + "-replays", ignore_errors=True)


if __name__ == "__main__":
    main()
