#!/venv/bin/python
"""Development tool (not a registered check): sensitivity self-test.

Applies each hand-written mutant to a scratch copy of /repo's working tree under
/var/tmp, runs both checks against that copy (FLOWDYN_REPO), reports which
invariants fire, and removes the copy.  Usage: mutants.py [name ...] [--runs N]"""
import json
import os
import re
import shutil
import subprocess
import sys

VERIF = os.path.dirname(os.path.dirname(os.path.abspath(__file__)))
I = "flowdyn/integration.py"
F = "flowdyn/field.py"
MUTANTS = [
    ("M1_save_gt", I, "while (isave < nsave) and (self.Qn.time+mindtloc >= tsave[isave]):",
     "while (isave < nsave) and (self.Qn.time+mindtloc > tsave[isave]):"),
    ("M2_sidestep_inplace", I, "            Qnn = self.Qn.copy()\n            # specific steps to save",
     "            Qnn = self.Qn\n            # specific steps to save"),
    ("M4_nit_before_side", I, "            Qnn = self.Qn.copy()\n            # specific steps to save",
     "            self._nit += 1\n            Qnn = self.Qn.copy()\n            # specific steps to save", 
     ("            self.Qn = Qnn\n            self._nit += 1\n", "            self.Qn = Qnn\n")),
    ("M5_checkend_gt", I, "check_end[key] = self._time >= value", "check_end[key] = self._time > value"),
    ("M6_addres_max", I, "f.time += np.min(dt) * subtimecoef", "f.time += np.max(dt) * subtimecoef"),
    ("M7_mon_nit", I, "        if self.totnit() % params.get('frequency', self.__default_monitor_freq) == 0:\n            if 'output' not in params:\n                params['output'] = monitor('residual')",
     "        if self._nit % params.get('frequency', self.__default_monitor_freq) == 0:\n            if 'output' not in params:\n                params['output'] = monitor('residual')"),
    ("M8_mon_before_commit", I, "            self.Qn = Qnn\n            self._nit += 1\n            self._time = self.Qn.time\n            self._parse_monitors(monitors)\n",
     "            self._nit += 1\n            self._time = Qnn.time\n            self._parse_monitors(monitors)\n            self.Qn = Qnn\n"),
    ("M9_restart_itplus1", I, "self.reset(itstart=max(f.it, 0))", "self.reset(itstart=max(f.it+1, 0))"),
    ("M11_solve_keeps_itstart", I, "        self.reset(itstart=0) # reset cputime and nit\n        self._reset_memory()",
     "        self.reset(itstart=self._itstart) # reset cputime and nit\n        self._reset_memory()"),
    ("M12_no_remove_output", I, "        self._remove_monitor_output(monitors)\n        return self._solve", "        return self._solve"),
    ("M13_reset_at_end", I, "        self._reset_memory() # a new integration does not depend on previous ones\n        self._remove_monitor_output(monitors)\n        return self._solve(f, condition, tsave, stop, flush, monitors, directives)",
     "        self._remove_monitor_output(monitors)\n        res = self._solve(f, condition, tsave, stop, flush, monitors, directives)\n        self._last = self.Qn; self._reset_memory()\n        return res"),
    ("M14_one_save_per_it", I, "            while (isave < nsave) and (self.Qn.time+mindtloc >= tsave[isave]):", 
     "            if (isave < nsave) and (self.Qn.time+mindtloc >= tsave[isave]):"),
    ("M15_copy_shares", F, "                    self.data[i] = d.copy()", "                    self.data[i] = d"),
    ("M16_sidestep_self", I, "copy.copy(self).step(Qnn, tsave[isave]-self.Qn.time)", "self.step(Qnn, tsave[isave]-self.Qn.time)"),
    ("M17_solve_no_reset", I, "        self._reset_memory() # a new integration does not depend on previous ones\n", ""),
    ("M18_restart_keeps", I, "        if f is not getattr(self, 'Qn', None): # can only go on from final state of last integration\n            self._reset_memory()\n", ""),
    ("M19_fallback_it", I, "                self.Qn.it = self.totnit() # needed by restart to go on with iteration count\n", ""),
    ("M20_no_dt_guard", I, "                if tsave[isave] > self.Qn.time:\n                    copy.copy(self).step", "                if True:\n                    copy.copy(self).step"),
    ("M22_dtlocal_ignored", I, "self.step(Qnn, dtloc if dtlocal else mindtloc)", "self.step(Qnn, mindtloc)"),
    ("M23_dt_max", I, "mindtloc = min(dtloc) # mindtloc = dtloc", "mindtloc = max(dtloc) # mindtloc = dtloc"),
    ("M24_stop_all", I, "return any(check_end.values())", "return all(check_end.values())"),
    ("M25_snapshot_it_local", I, "                Qnn.it = self._itstart + self._nit\n                results.append(Qnn)\n                if verbose:",
     "                Qnn.it = self._nit\n                results.append(Qnn)\n                if verbose:"),
    ("M26_start_skip_ge", I, "while (isave < nsave) and (self.Qn.time > tsave[isave]):", "while (isave < nsave) and (self.Qn.time >= tsave[isave]):"),
    ("M27_gear_reset_partial", I, "        trapezoidal._reset_memory(self)\n        self.__dict__.pop(\"_lastresidual\", None)", "        trapezoidal._reset_memory(self)"),
    ("M28_rk_time_first_stage", I, "            self.add_res(pfield, dtloc, self._subtimecoef[s])\n        field.set(pfield)",
     "            self.add_res(pfield, dtloc, self._subtimecoef[s])\n        pfield.time = field.time + np.min(dtloc) * self._subtimecoef[0]\n        field.set(pfield)"),
    ("M29_copy_drops_it", F, "        new = fdata(self.model, self.mesh, self.data, \n                t=self.time, it=self.it)", "        new = fdata(self.model, self.mesh, self.data, \n                t=self.time)"),
    ("M30_Qn_nocopy", I, "        self.Qn = f.copy()\n", "        self.Qn = f\n"),
    ("M31_mon_time_prev", I, "            self._time = self.Qn.time\n            self._parse_monitors(monitors)", "            self._parse_monitors(monitors)\n            self._time = self.Qn.time"),
    ("M32_tottime_default_first", I, "stopcrit = { 'tottime': tsave[-1] } if len(tsave)>0 else {}", "stopcrit = { 'tottime': tsave[0] } if len(tsave)>0 else {}"),
]


def apply(root, m):
    name, path, old, new = m[:4]
    p = os.path.join(root, path)
    s = open(p).read()
    if s.count(old) < 1:
        raise SystemExit("mutant %s: pattern not found" % name)
    s = s.replace(old, new, 1)
    if len(m) > 4:
        o2, n2 = m[4]
        if s.count(o2) < 1:
            raise SystemExit("mutant %s: 2nd pattern not found" % name)
        s = s.replace(o2, n2, 1)
    open(p, "w").write(s)


def run_check(prop, root, runs, replay_dir):
    env = dict(os.environ, FLOWDYN_REPO=root, VERIF_REPLAY_DIR=replay_dir)
    r = subprocess.run([sys.executable, os.path.join(VERIF, "check.py"), prop, "--runs", str(runs),
                        "--no-evidence", "--no-selftest"], capture_output=True, text=True, env=env, cwd=VERIF)
    inv = re.findall(r"^  invariant (\w+): (.*)$", r.stdout, re.M)
    tail = r.stdout.strip().splitlines()[-1] if r.stdout.strip() else r.stderr[-300:]
    return r.returncode, inv, tail


def main():
    args = [a for a in sys.argv[1:] if not a.startswith("--")]
    runs = 3000
    for a in sys.argv[1:]:
        if a.startswith("--runs="):
            runs = int(a[7:])
    sel = [m for m in MUTANTS if not args or m[0] in args or m[0].split("_")[0] in args]
    out = {}
    for m in sel:
        root = "/var/tmp/flowdyn-mut-%s" % m[0]
        shutil.rmtree(root, ignore_errors=True)
        os.makedirs(root)
        subprocess.run("cd /repo && git ls-files -z flowdyn | xargs -0 cp --parents -t %s" % root, shell=True, check=True)
        rd = root + "-replays"
        try:
            apply(root, m)
            res = {}
            for prop in ("C07", "C08"):
                rc, inv, tail = run_check(prop, root, runs, rd)
                res[prop] = {"rc": rc, "invariants": [i[0] for i in inv], "first": inv[0][1][:160] if inv else "", "tail": tail}
            out[m[0]] = res
            print("%-28s C07 rc=%d %-14s | C08 rc=%d %-14s" % (m[0], res["C07"]["rc"], ",".join(res["C07"]["invariants"]),
                                                        res["C08"]["rc"], ",".join(res["C08"]["invariants"])), flush=True)
        finally:
            shutil.rmtree(root, ignore_errors=True)
            shutil.rmtree(rd, ignore_errors=True)
    json.dump(out, open("/var/tmp/mutants_result.json", "w"), indent=1)


if __name__ == "__main__":
    main()
