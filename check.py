#!/venv/bin/python
"""Entry point of the registered checks: check.py <C07|C08> --tier quick|thorough"""
import os
import sys

HERE = os.path.dirname(os.path.abspath(__file__))
if HERE not in sys.path:
    sys.path.insert(0, HERE)

if __name__ == "__main__":
    from sim.driver import main
    sys.exit(main())
