#!/venv/bin/python
"""Replay a violation file in a fresh process.

exit 1: reproduced (same invariant, same event-log digest);  exit 3: did not reproduce."""
import json
import os
import sys

HERE = os.path.dirname(os.path.abspath(__file__))
if HERE not in sys.path:
    sys.path.insert(0, HERE)


def main():
    path = sys.argv[1]
    doc = json.load(open(path))
    os.environ.setdefault("OPENBLAS_NUM_THREADS", "1")
    from sim.run import simulate
    prop = doc["property"]
    o = simulate(doc["schedule"], prop)
    if o["harness_error"]:
        print("HARNESS-ERROR while replaying: %s" % o["harness_error"][-2000:])
        return 2
    want = doc["violation"]["invariant"]
    got = [v for v in o["violations"] if v["invariant"] == want]
    dig = o.get("digest_fault") if o.get("pass") == "fault" else o.get("digest_ff")
    if got:
        v = got[0]
        same = (dig == doc.get("log_digest"))
        print("VIOLATION property=%s replay=%s" % (prop, path))
        print("  invariant %s (op %d, %s pass): %s" % (v["invariant"], v["op"], o["pass"], v["detail"]))
        print("  event-log digest %s (%s the recorded one)" % (dig, "identical to" if same else "DIFFERS from"))
        return 1
    print("did not reproduce: invariant %s not violated (violations now: %s)" %
          (want, [v["invariant"] for v in o["violations"]]))
    return 3


if __name__ == "__main__":
    sys.exit(main())
