"""Shared primitives: seeds, digests, float <-> JSON, exception taxonomy."""
import hashlib
import math
import os
import random
import struct
import sys

import numpy as np

REPO = os.environ.get("FLOWDYN_REPO", "/repo")


def use_repo():
    """Make sure flowdyn is imported from the current working tree of /repo."""
    if sys.path[0] != REPO:
        sys.path.insert(0, REPO)
    import flowdyn  # noqa

    f = os.path.realpath(flowdyn.__file__)
    if not f.startswith(os.path.realpath(REPO) + os.sep):
        raise HarnessError("flowdyn imported from %s, not from %s" % (f, REPO))
    return f


# --------------------------------------------------------------------------
# exceptions


class HarnessError(Exception):
    """The simulator itself misbehaved (never a VIOLATION, never a pass)."""


class SimFault(Exception):
    """Injected failure (an ordinary Exception: failing callback, I/O, ...)."""


class SimInterrupt(BaseException):
    """Injected interruption (BaseException, models Ctrl-C / kernel interrupt)."""


class SimBudget(BaseException):
    """Tick-source budget exhausted: the call does not terminate in bound."""


INJECTED = (SimFault, SimInterrupt)


# --------------------------------------------------------------------------
# seeds


def subseed(*parts):
    """Stable 64-bit integer from the parts (no hash(), no PYTHONHASHSEED)."""
    h = hashlib.sha256(("|".join(str(p) for p in parts)).encode()).digest()
    return int.from_bytes(h[:8], "big")


def rng_for(*parts):
    return random.Random(subseed(*parts))


# --------------------------------------------------------------------------
# floats in JSON: exact, as hex strings


def fhex(x):
    return float(x).hex()


def unhex(s):
    if isinstance(s, str):
        return float.fromhex(s)
    return float(s)


def ulp(x):
    x = abs(float(x))
    if not math.isfinite(x):
        return float("inf")
    return float(np.spacing(x)) if x > 0 else 5e-324


def tol(*xs, k=8):
    return k * max(ulp(x) for x in xs)


# --------------------------------------------------------------------------
# digests


def digest_arrays(arrays, *scalars):
    h = hashlib.sha1()
    for a in arrays:
        a = np.ascontiguousarray(np.asarray(a, dtype=np.float64))
        h.update(struct.pack("<i", a.ndim))
        for n in a.shape:
            h.update(struct.pack("<i", n))
        h.update(a.tobytes())
    for s in scalars:
        h.update(struct.pack("<d", float(s)))
    return h.hexdigest()[:16]


def digest_field(f):
    """Content digest of a field: data only (time and it are reported apart)."""
    return digest_arrays(f.data)


def field_obs(f):
    return (digest_field(f), float(f.time), int(f.it))


def is_finite_field(f):
    return all(bool(np.all(np.isfinite(d))) for d in f.data) and math.isfinite(f.time)


def digest_log(events):
    h = hashlib.sha1()
    for e in events:
        h.update(repr(e).encode())
        h.update(b"\n")
    return h.hexdigest()
