"""Seeded schedule generator.  One integer decides everything: the schedule is a
pure function of (VERIF_SEED, property, run index) and is materialised as a JSON
document before anything executes.  No flowdyn import here."""
import math

from .core import fhex, rng_for, subseed

EXPLICIT = ["explicit", "forwardeuler", "rk2", "rk2_heun", "rk3_heun", "rk3ssp", "rk4",
            "lsrk25bb", "lsrk26bb", "lsrk4"]
IMPLICIT = ["implicit", "backwardeuler", "trapezoidal", "cranknicolson", "gear"]
MON_DATA = {
    "convection": ["q"],
    "burgers": [],
    "euler": ["density", "pressure", "mach", "velocity", "massflow"],
    "shallowwater": ["height", "velocity", "massflow"],
    "euler2d": ["density", "pressure", "mach", "velocity_x", "velocity_y"],
    "nozzle": ["density", "pressure", "mach", "velocity", "massflow"],
}
PLACEMENT_KINDS = ["start", "start_minus", "inside", "twice", "burst", "boundary",
                   "sumboundary", "stop", "beyond", "lin", "int"]
FAULT_WHERE = ["first_step", "side", "after_side", "last_step", "jac", "monitor", "tick",
               "linsolve", "stepend", "flush", "any_rhs", "step", "alloc"]


def wchoice(rng, pairs):
    tot = sum(w for _, w in pairs)
    x = rng.random() * tot
    acc = 0.0
    for v, w in pairs:
        acc += w
        if x < acc:
            return v
    return pairs[-1][0]


def _pow2_floor(x):
    return 2.0 ** math.floor(math.log2(x))


def gen_world(rng, prop):
    mode = wchoice(rng, [("stub", 45), ("hybrid", 30), ("real", 25)] if prop == "C07"
                   else [("stub", 30), ("hybrid", 25), ("real", 45)])
    w = {"mode": mode}
    if mode == "stub":
        ncell = rng.choice([2, 3, 4])
        kind = wchoice(rng, [("linear", 50), ("quadratic", 50)])
        w["stub"] = {"rhs": kind, "lam": fhex(-0.25), "mu": fhex(rng.choice([1.0, 0.5, 0.0]))}
        w["model"] = {"kind": "convection", "a": fhex(1.0)} if kind == "linear" else {"kind": "burgers"}
        w["mesh"] = {"kind": "uni", "ncell": ncell, "length": fhex(ncell * 0.125)}
        speed = 1.0
        dxmin = 0.125
    else:
        ncell = rng.choice([3, 4, 5, 6, 8, 10, 16, 32])
        mk = wchoice(rng, [("convection", 30), ("burgers", 20), ("euler", 20), ("shallowwater", 12), ("euler2d", 9),
                           ("nozzle", 9)])
        if mk == "convection":
            a = rng.choice([1.0, -1.0, 2.0, 0.5])
            w["model"] = {"kind": mk, "a": fhex(a)}
            speed = abs(a)
        elif mk == "burgers":
            w["model"] = {"kind": mk}
            speed = 2.0
        elif mk == "euler":
            w["model"] = {"kind": mk, "flux": rng.choice(["hllc", "hlle"])}
            speed = 2.0
        elif mk == "euler2d":
            w["model"] = {"kind": mk, "flux": rng.choice(["hlle", "centered"])}
            speed = 2.0
        elif mk == "nozzle":
            w["model"] = {"kind": mk, "flux": rng.choice(["hllc", "hlle"]), "slope": fhex(rng.choice([0.3, -0.2, 0.0]))}
            speed = 2.0
        else:
            w["model"] = {"kind": mk, "flux": rng.choice(["hll", "rusanov"])}
            speed = 4.5
        if mk == "euler2d":
            nx, ny = rng.choice([3, 4]), rng.choice([3, 4])
            ncell = nx * ny
            w["mesh"] = {"kind": "uni2d", "nx": nx, "ny": ny, "ncell": ncell}
            dxmin = (1. / nx) * (1. / ny) / (1. / nx + 1. / ny)
        elif ncell >= 4 and rng.random() < 0.25:
            w["mesh"] = {"kind": "refined", "ncell": ncell, "length": fhex(ncell * 0.125),
                         "ratio": fhex(rng.choice([2.0, 0.5, 3.0]))}
            dxmin = 0.125 / 2.5
        else:
            w["mesh"] = {"kind": "uni", "ncell": ncell, "length": fhex(ncell * 0.125)}
            dxmin = 0.125
        w["num"] = wchoice(rng, [("extrapol1", 40), ("extrapol3", 25), ("muscl_minmod", 20), ("muscl_vanleer", 15)])
        if mk == "euler2d":
            w["num"] = rng.choice(["extrapol2d1", "extrapol2dk"])
        # boundary conditions: periodic mostly; the driver must not care
        if mk in ("euler", "nozzle"):
            w["bc"] = wchoice(rng, [("per", 50 if mk == "euler" else 10), ("sym", 20), ("inout", 20), ("dirichlet", 10)])
        elif mk == "shallowwater":
            w["bc"] = wchoice(rng, [("per", 60), ("sym", 30), ("dirichlet", 10)])
        elif mk in ("convection", "burgers"):
            w["bc"] = wchoice(rng, [("per", 75), ("dirichlet", 25)])
        if rng.random() < 0.3:
            w["share_model"] = True
    mkind = w["model"]["kind"]
    # solvers
    ns = wchoice(rng, [(1, 60), (2, 30), (3, 10)] if prop == "C07" else [(1, 50), (2, 35), (3, 15)])
    shared = rng.random() < 0.5
    solvers = []
    fam_bias = rng.random()
    for i in range(ns):
        if rng.random() < (0.30 + 0.4 * fam_bias):
            cls = wchoice(rng, [("implicit", 22), ("backwardeuler", 8), ("trapezoidal", 10),
                                ("cranknicolson", 20), ("gear", 40)])
        else:
            cls = rng.choice(EXPLICIT)
        if mkind == "euler2d" and cls in IMPLICIT:
            cls = rng.choice(EXPLICIT)  # the finite-difference Jacobian does not support vector data
        if w["mesh"].get("ncell", 0) > 12 and cls in IMPLICIT:
            cls = rng.choice(EXPLICIT)  # keep the O(n^2) finite-difference Jacobians cheap
        s = {"cls": cls, "disc": 0 if shared else i}
        if rng.random() < 0.2:
            s["cmon"] = gen_monspec(rng, mkind, 1)
        solvers.append(s)
    if ns > 1 and rng.random() < 0.3:
        # same class on several objects: the cross-object comparison case
        for s in solvers[1:]:
            s["cls"] = solvers[0]["cls"]
    w["solvers"] = solvers
    if sum(1 for s in solvers if s.get("cmon")) >= 2 and rng.random() < 0.4:
        w["cmon_shared"] = True
    # fields
    nf = wchoice(rng, [(1, 50), (2, 35), (3, 15)])
    fields = []
    t0 = wchoice(rng, [(0.0, 60), (1.0, 10), (0.375, 10), (1024.0, 8), (-0.25, 7), (0.1, 5)])
    for i in range(nf):
        prof = rng.choice(["sin", "sin", "step", "saw"])
        if mkind == "convection":
            base, amp = rng.choice([0.0, 1.0, -0.5]), rng.choice([1.0, 0.5, 0.0, 2.0])
        elif mkind == "burgers":
            base = rng.choice([1.0, 1.5, 0.75])
            amp = base * rng.choice([0.0, 0.2, 0.5])
        else:
            base, amp = 1.0, rng.choice([0.0, 0.1, 0.3])
        f = {"profile": prof, "base": fhex(base), "amp": fhex(amp), "k": rng.choice([1, 1, 2]),
             "u0": fhex(wchoice(rng, [(0.0, 10), (0.3, 35), (-0.5, 35), (0.1, 20)])),
             "t0": fhex(t0 if (i == 0 or rng.random() < 0.7) else rng.choice([0.0, 1.0, 0.375])),
             "it": wchoice(rng, [(-1, 78), (0, 8), (5, 10), (100, 4)])}
        if rng.random() < 0.15:
            f["t_int"] = True      # callers write t=0 or t=1 as plain integers
        if amp == 0.0 and rng.random() < 0.5:
            f["scalar_init"] = True  # constant state given as scalars (expanded by fdata)
        fields.append(f)
    w["fields"] = fields
    # tick table
    if mode in ("stub", "hybrid"):
        H = 0.0625 if mode == "stub" else _pow2_floor(dxmin / speed)
        nseg = wchoice(rng, [(1, 35), (2, 20), (3, 20), (5, 25)])
        if mkind == "convection":
            # fidelity: the time step of the (only) linear model does not depend on the state,
            # so a scheduler-owned tick source must not vary in time there either (per-cell
            # weights stand for cell sizes and stay)
            nseg = 1
        if nseg == 1:
            ms = [1.0]
        else:
            ms = [wchoice(rng, [(1.0, 30), (0.5, 12), (2.0, 8), (1.5, 10), (0.75, 10), (1.25, 8),
                                (rng.uniform(0.5, 1.5), 15), (2.0 ** -6, 4), (0.1, 3)]) for _ in range(nseg)]
        if ms[-1] < 0.5:
            ms[-1] = 1.0  # the last segment lasts forever: keep runs bounded
        bp = []
        x = t0
        for j in range(nseg - 1):
            if ms[j] < 0.25:
                x += H * ms[j] * rng.choice([1, 2, 3])  # tiny ticks only for a few steps
            else:
                x += H * rng.choice([1, 2, 3, 4, 0.5, 2.5]) * rng.choice([0.5, 1.0])
            bp.append(x)
        rows = []
        for _ in range(rng.choice([1, 1, 2, 3]) if mkind != "convection" else 1):
            if rng.random() < 0.5:
                row = [1.0] * ncell
            else:
                row = [wchoice(rng, [(1.0, 40), (1.5, 20), (2.0, 20), (rng.uniform(1.0, 3.0), 20)]) for _ in range(ncell)]
                row[rng.randrange(ncell)] = 1.0
            rows.append([fhex(v) for v in row])
        w["ticks"] = {"H": fhex(H), "bp": [fhex(v) for v in bp], "m": [fhex(v) for v in ms], "w": rows}
    w["clock"] = wchoice(rng, [("normal", 70), ("backwards", 8), ("nan", 8), ("huge", 7), ("jump", 7)])
    return w


def gen_monspec(rng, mkind, nmax=2):
    spec = {}
    n = rng.choice(list(range(1, nmax + 1)))
    for j in range(n):
        typ = "residual"
        if MON_DATA[mkind] and rng.random() < 0.45:
            typ = "data_average"
        e = {}
        name = typ
        if rng.random() < 0.5 or typ in spec:
            name = "m%d_%s" % (j, typ[:3])
            e["type"] = typ
        if rng.random() < 0.85:
            e["frequency"] = rng.choice([1, 1, 2, 3, 5, 7, 4, 10, 25, 1000])
        if typ == "data_average":
            e["data"] = rng.choice(MON_DATA[mkind])
        spec[name] = e
    return spec


def gen_cfl(rng, world, cls):
    if world["mode"] == "stub":
        return rng.choice([0.25, 0.5, 0.5, 1.0, 2.0])
    if cls in IMPLICIT:
        return wchoice(rng, [(0.5, 20), (1.0, 20), (2.0, 20), (rng.uniform(0.3, 8.0), 40)])
    return wchoice(rng, [(0.5, 30), (0.25, 20), (rng.uniform(0.1, 0.7), 50)])


def gen_tsave(rng, n, mask, has_tottime, must_nonempty):
    places = []
    cnt = wchoice(rng, [(0, 15), (1, 25), (2, 20), (3, 15), (5, 15), (8, 10)])
    kinds = [k for k in PLACEMENT_KINDS if k in mask]
    for _ in range(cnt):
        if not kinds:
            break
        k = rng.choice(kinds)
        i = rng.randrange(0, max(n, 1))
        if k == "start":
            places.append({"k": "start"})
        elif k == "start_minus":
            places.append({"k": "start_minus", "eps": fhex(rng.choice([0.5, 1e-9, 3.0, 2.0 ** -30]))})
        elif k == "inside":
            places.append({"k": "inside", "i": i, "th": fhex(rng.choice([0.5, 0.25, 0.9, rng.random(), 1e-9, 1 - 1e-9]))})
        elif k == "twice":
            a, b = sorted([rng.random(), rng.random()])
            places.append({"k": "inside", "i": i, "th": fhex(a)})
            places.append({"k": "inside", "i": i, "th": fhex(b)})
        elif k == "burst":
            for _ in range(rng.choice([3, 4, 6])):
                places.append({"k": "inside", "i": i, "th": fhex(rng.random())})
        elif k == "boundary":
            places.append({"k": "boundary", "i": rng.randrange(0, n + 1), "ulps": rng.choice([0, 0, 0, 1, -1, 2, -2])})
        elif k == "sumboundary":
            places.append({"k": "sumboundary", "i": i, "ulps": rng.choice([0, 0, 1, -1])})
        elif k == "stop":
            places.append({"k": "stop"})
        elif k == "beyond":
            places.append({"k": "beyond", "th": fhex(rng.choice([0.5, 3.0, 1e-9, 10.0]))})
        elif k == "int":
            places.append({"k": "int", "v": rng.choice([1, 1, 2, 3])})
        elif k == "lin":
            m = rng.choice([2, 3, 4, 5, 10])
            for j in range(m + 1):
                places.append({"k": "lin", "j": j, "m": m, "n": n})
    if must_nonempty and not any(p["k"] in ("boundary", "inside", "stop", "beyond", "lin", "sumboundary") for p in places):
        places.append(wchoice(rng, [({"k": "boundary", "i": n, "ulps": 0}, 40),
                                    ({"k": "inside", "i": max(n - 1, 0), "th": fhex(rng.random())}, 60)]))
    return places


def gen_op(rng, prop, world, idx, mask, nres_ops):
    mkind = world["model"]["kind"]
    ns = len(world["solvers"])
    s = rng.randrange(ns)
    cls = world["solvers"][s]["cls"]
    if prop == "C07":
        kind = wchoice(rng, [("solve", 65), ("restart", 20), ("step", 15)])
    else:
        kind = wchoice(rng, [("solve", 50), ("restart", 42), ("step", 8)])
    if idx == 0 and kind == "restart" and rng.random() < 0.7:
        kind = "solve"
    # field reference
    if nres_ops and rng.random() < (0.8 if kind == "restart" else 0.3):
        j = rng.choice(nres_ops)
        k = wchoice(rng, [(-1, 70), (0, 15), (rng.randrange(0, 8), 15)])
        fref = {"res": [j, k]}
    else:
        fref = {"init": rng.randrange(len(world["fields"]))}
    if kind != "step" and rng.random() < 0.12:
        fref["copy"] = True
    op = {"op": kind, "s": s, "f": fref}
    if kind == "step":
        H = 0.0625
        r = rng.random()
        if r < 0.6:
            op["dt"] = {"scalar": fhex(rng.choice([H, H / 2, 0.01, 0.1 * rng.random() + 1e-3, 2.0 ** -30, 0.0]))}
        else:
            op["dt"] = {"array": [fhex(0.01 * rng.choice([1.0, 1.5, 2.0, 1.0 + rng.random()])) for _ in range(4)]}
        return op
    op["cfl"] = fhex(gen_cfl(rng, world, cls) if rng.random() < 0.35 else float.fromhex(world["cfl"]))
    n = wchoice(rng, [(1, 12), (2, 15), (3, 18), (4, 12), (6, 15), (9, 12), (14, 8), (25, 6), (0, 2)])
    if world["mode"] == "stub" and rng.random() < 0.04:
        n = rng.choice([60, 120, 250])  # long runs where they are cheap
    elif world.get("depth") and rng.random() < 0.06:
        n = rng.choice([40, 80])
    op["horizon"] = n
    sk = wchoice(rng, [("default", 35), ("tottime", 25), ("maxit", 20), ("both", 15), ("degenerate", 5)])
    stop = None
    if sk in ("tottime", "both"):
        stop = {"tottime": wchoice(rng, [
            ({"k": "boundary", "i": n, "ulps": rng.choice([0, 0, 1, -1])}, 30),
            ({"k": "inside", "i": max(n - 1, 0), "th": fhex(rng.random())}, 50),
            ({"k": "sumboundary", "i": max(n - 1, 0), "ulps": rng.choice([0, 1, -1])}, 20)])}
    if sk in ("maxit", "both"):
        stop = stop or {}
        stop["maxit"] = max(0, n + (rng.choice([-1, 0, 0, 1, 2]) if sk == "both" else 0))
        if rng.random() < 0.06:
            stop["maxit"] = stop["maxit"] + 0.5  # "ntot/2"-style float iteration limits
    if sk == "degenerate":
        stop = wchoice(rng, [({"maxit": 0}, 40), ({"tottime": {"k": "start"}}, 30),
                             ({"tottime": {"k": "start_minus", "eps": fhex(1.0)}}, 30)])
    op["stop"] = stop
    op["stop_kind"] = sk
    op["tsave"] = gen_tsave(rng, n, mask, stop is not None and "tottime" in stop, sk == "default")
    op["tsave_type"] = wchoice(rng, [("list", 55), ("ndarray", 27), ("tuple", 9), ("npscalars", 9)])
    if rng.random() < 0.1:
        op["np_args"] = True  # cfl / maxit / tottime handed over as numpy scalars
    pm = 0.25 if prop == "C07" else 0.45
    if "mon" in mask and rng.random() < pm:
        op["mon"] = gen_monspec(rng, mkind, 3)
        op["mon_id"] = rng.randrange(0, 3) if rng.random() < 0.4 else 100 + idx
    op["dir"] = {"dtlocal": True} if ("dtlocal" in mask and rng.random() < 0.25) else {}
    if world["mode"] == "stub" and cls in EXPLICIT and rng.random() < (0.002 if not world.get("depth") else 0.004):
        # marathon: one call of more than ten thousand iterations (cheap in the stub world),
        # against silent iteration caps and counters that only go wrong far from zero
        n = 10200 + rng.randrange(2500)
        op["horizon"] = n
        op["budget"] = n + 300
        op["stop"] = rng.choice([None, {"tottime": {"k": "boundary", "i": n, "ulps": 0}}, {"maxit": n}])
        op["stop_kind"] = "marathon"
        op.pop("stop_share", None)
        op["tsave"] = [{"k": "inside", "i": rng.randrange(n), "th": fhex(0.5)}, {"k": "boundary", "i": n, "ulps": 0}]
        op.pop("mon", None)
        op.pop("mon_id", None)
        op.pop("flush", None)
    if rng.random() < 0.05:
        op["dir"]["verbose"] = True
    # (np.save of the flush history is ragged for vector-valued 2D fields and raises: an
    #  observation about an option no claimed property mentions, so not generated there)
    if "flush" in mask and mkind != "euler2d" and rng.random() < 0.3:
        op["flush"] = rng.choice(["ok", "ok", "short"])
    return op


def _noop_stop(rng, n):
    return {"maxit": max(1, n)}


def apply_template(rng, prop, world, mask, ops):
    """Overwrite the structure (kinds, solver objects, field references, stops) of a
    randomly generated operation list with one of a few multi-call patterns."""
    ns = len(world["solvers"])
    nf = len(world["fields"])
    name = rng.choice(["ABA", "two-objects", "split-chain", "step-between", "cfl-change", "crash-redo", "same-dict"])

    def fresh_op(i, kind):
        for _ in range(20):
            op = gen_op(rng, prop, world, i, mask, [])
            if op["op"] != "step":
                break
        op["op"] = kind
        op.pop("stop_share", None)
        op.pop("tsave_share", None)
        return op

    def plain_final(op, n=None):
        """make the call end without snapshot, so that it returns its final state object"""
        n = n if n is not None else max(1, min(op.get("horizon", 3), 6))
        op["tsave"] = []
        op["stop"] = {"maxit": n}
        op["stop_kind"] = "maxit"
        op["horizon"] = n
        return op

    s0 = rng.randrange(ns)
    s1 = (s0 + 1) % ns if ns > 1 else s0
    fA = rng.randrange(nf)
    fB = (fA + 1) % nf if nf > 1 else fA
    if name == "ABA":
        a = plain_final(fresh_op(0, "solve"))
        b = plain_final(fresh_op(1, "solve"), a["stop"]["maxit"])
        c = fresh_op(2, "restart")
        a["s"] = b["s"] = c["s"] = s0
        a["f"], b["f"], c["f"] = {"init": fA}, {"init": fB}, {"res": [0, -1]}
        b["cfl"] = a["cfl"]
        if rng.random() < 0.5:
            b["stop_share"] = 0
        return name, [a, b, c]
    if name == "two-objects":
        a = plain_final(fresh_op(0, "solve"))
        b = fresh_op(1, rng.choice(["solve", "restart"]))
        c = fresh_op(2, "restart")
        a["s"], b["s"], c["s"] = s0, s1, s0
        a["f"], b["f"], c["f"] = {"init": fA}, rng.choice([{"init": fB}, {"res": [0, -1]}]), {"res": [0, -1]}
        return name, [a, b, c]
    if name == "split-chain":
        out = [plain_final(fresh_op(0, "solve"))]
        out[0]["s"], out[0]["f"] = s0, {"init": fA}
        for i in range(1, rng.choice([2, 3, 4])):
            o = fresh_op(i, "restart")
            o["s"], o["f"] = s0, {"res": [i - 1, -1]}
            if rng.random() < 0.6:
                plain_final(o)
            out.append(o)
        return name, out
    if name == "step-between":
        a = fresh_op(0, "solve")
        c = fresh_op(2, rng.choice(["solve", "restart"]))
        a["s"] = c["s"] = s0
        a["f"] = {"init": fA}
        c["f"] = rng.choice([{"init": fA}, {"res": [0, -1]}])
        st = {"op": "step", "s": s0, "f": {"init": fB},
              "dt": {"scalar": fhex(rng.choice([0.0625, 0.01, 0.03125]))}}
        return name, [a, st, c]
    if name == "cfl-change":
        a = plain_final(fresh_op(0, "solve"))
        b = fresh_op(1, "restart")
        a["s"] = b["s"] = s0
        a["f"], b["f"] = {"init": fA}, {"res": [0, -1]}
        b["cfl"] = fhex(float.fromhex(a["cfl"]) * rng.choice([0.5, 2.0, 0.75]))
        if rng.random() < 0.5:
            b["dir"] = {"dtlocal": True}
        return name, [a, b]
    if name == "crash-redo":
        a = fresh_op(0, rng.choice(["solve", "restart"]))
        a["f"] = rng.choice([{"init": fA}, a["f"]])
        b = dict(a)
        b["f"] = dict(a["f"])
        a["s"] = b["s"] = s0
        c = fresh_op(2, "restart")
        c["s"], c["f"] = s0, {"res": [1, -1]}
        return name, [a, b, c]
    # same-dict: one monitors dictionary and one stop dictionary used by every call
    out = []
    for i in range(rng.choice([2, 3])):
        o = fresh_op(i, "solve" if i == 0 or rng.random() < 0.4 else "restart")
        o["s"] = rng.randrange(ns)
        o["f"] = {"init": fA} if i == 0 else rng.choice([{"init": fB}, {"res": [i - 1, -1]}])
        o["mon"] = out[0]["mon"] if i else (o.get("mon") or gen_monspec(rng, world["model"]["kind"], 2))
        o["mon_id"] = 7
        if i and out[0].get("stop"):
            o["stop"], o["stop_kind"], o["stop_share"] = out[0]["stop"], out[0]["stop_kind"], 0
        out.append(o)
    return name, out


DEPTH = {"quick": 0, "thorough": 1}


def generate(seed, prop, run, depth=0):
    """depth 1 (thorough tier): longer histories, longer calls, more marathons."""
    rng = rng_for(seed, prop, run, depth) if depth else rng_for(seed, prop, run)
    world = gen_world(rng, prop)
    world["depth"] = depth
    world["cfl"] = fhex(gen_cfl(rng, world, world["solvers"][0]["cls"]))
    # swarm mask
    mask = set()
    for k in PLACEMENT_KINDS:
        if rng.random() < (0.55 if k != "int" else 0.2):
            mask.add(k)
    if not mask & set(PLACEMENT_KINDS):
        mask.add("inside")
    for k, p in (("mon", 0.7), ("dtlocal", 0.35), ("flush", 0.3)):
        if rng.random() < p:
            mask.add(k)
    if prop == "C07":
        nops = wchoice(rng, [(1, 50), (2, 30), (3, 20)] if not depth else [(1, 35), (2, 30), (3, 20), (4, 10), (6, 5)])
    else:
        nops = wchoice(rng, [(1, 12), (2, 35), (3, 25), (4, 14), (5, 8), (6, 6)] if not depth else
                       [(1, 8), (2, 25), (3, 22), (4, 15), (5, 10), (6, 8), (8, 7), (10, 5)])
    ops = []
    res_ops = []
    for i in range(nops):
        op = gen_op(rng, prop, world, i, mask, res_ops)
        # callers commonly re-use one stop dictionary object for several calls
        prev = [j for j, o in enumerate(ops) if o["op"] != "step" and o.get("stop") and "stop_share" not in o]
        if op["op"] != "step" and prev and rng.random() < 0.3:
            j = rng.choice(prev)
            op["stop_share"] = j
            op["stop"] = ops[j]["stop"]
            op["stop_kind"] = ops[j]["stop_kind"]
        prevt = [j for j, o in enumerate(ops) if o["op"] != "step" and o.get("tsave") and "tsave_share" not in o
                 and o.get("stop_kind") != "marathon"]
        if op["op"] != "step" and prevt and op.get("stop_kind") != "marathon" and rng.random() < 0.2:
            j = rng.choice(prevt)
            op["tsave_share"] = j
            op["tsave"] = ops[j]["tsave"]
            op["tsave_type"] = ops[j]["tsave_type"]
        ops.append(op)
        res_ops.append(i)
    # history templates: multi-call patterns that random choice reaches too rarely
    template = None
    if rng.random() < (0.30 if prop == "C08" else 0.10):
        template, ops = apply_template(rng, prop, world, mask, ops)
        nops = len(ops)
    # C08: frequently make the history a repeat / split of the same solve
    elif prop == "C08" and len(ops) >= 2 and rng.random() < 0.35:
        a = ops[0]
        if a["op"] != "step":
            b = dict(a)
            b["s"] = rng.randrange(len(world["solvers"]))
            variant = rng.choice(["same", "nosave", "nomon", "other-solver"])
            if variant == "nosave" and a.get("stop"):
                b["tsave"] = []
            if variant == "nomon":
                b.pop("mon", None)
                b.pop("mon_id", None)
            ops[1] = b
    # fault plan (symbolic; materialised against the fault-free pass)
    plan = []
    pf = 0.3 if prop == "C07" else 0.4
    if rng.random() < pf:
        fmask = [k for k in FAULT_WHERE if rng.random() < 0.5] or ["any_rhs"]
        for _ in range(wchoice(rng, [(1, 75), (2, 25)])):
            plan.append({"op": rng.randrange(nops), "where": rng.choice(fmask), "frac": fhex(rng.random()),
                         "exc": wchoice(rng, [("fault", 60), ("interrupt", 40)])})
    if template == "crash-redo" and not any(p["op"] == 0 for p in plan):
        plan.append({"op": 0, "where": rng.choice(FAULT_WHERE), "frac": fhex(rng.random()),
                     "exc": wchoice(rng, [("fault", 60), ("interrupt", 40)])})
    return {"v": 1, "prop": prop, "seed": seed, "run": run, "sub": subseed(seed, prop, run),
            "world": world, "mask": sorted(mask), "template": template, "ops": ops, "fault_plan": plan, "faults": [],
            "alloc": any(p["where"] == "alloc" for p in plan)}
