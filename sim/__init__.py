"""Deterministic simulation with fault injection for flowdyn's solver driver.

See /verif/DESIGN.md.  Entry points: /verif/check.py, /verif/replay.py.
"""
