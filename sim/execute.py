"""Execute one schedule document against the real driver, under the simulator.

Execution is a pure function of (schedule document, code under /repo)."""
import math
import sys
import traceback

import numpy as np

from .core import (HarnessError, SimBudget, digest_field, digest_log,
                   field_obs, is_finite_field, ulp, unhex)
from .refmodel import Model
from .trace import FlushSink, GlobalGuard, Recorder, fingerprint, patched_np
from .world import IMPLICIT, World, deep_field_copy, integrator_class, mon_dict, tnum

MIN_GAP_ULPS = 64
# documented default of the library (read, not assumed, so that changing it is no alarm)
DEFAULT_FREQ = getattr(tnum.timemodel, "_timemodel__default_monitor_freq", 10)


def _spec_fp(d):
    """Fingerprint of a monitors dictionary without the recorded outputs."""
    return fingerprint({k: {kk: vv for kk, vv in v.items() if kk != "output"} if isinstance(v, dict) else v
                        for k, v in d.items()})


def _spec_fp_saved(fp):
    """Same, from a full fingerprint taken earlier (drop the 'output' items)."""
    if not (isinstance(fp, tuple) and fp and fp[0] == "d"):
        return fp
    out = ["d"]
    for k, v in fp[1:]:
        if isinstance(v, tuple) and v and v[0] == "d":
            v = ("d",) + tuple(it for it in v[1:] if it[0] != repr("output"))
        out.append((k, v))
    return tuple(out)


class _NullOut:
    def write(self, s):
        return len(s)

    def flush(self):
        pass


class OpRecord:
    """Everything the oracles may look at for one operation."""

    def __init__(self):
        self.i = None
        self.spec = None
        self.kind = None
        self.cls = None
        self.s = None
        self.f_ref = None
        self.f0 = None            # harness deep copy of the initial field (before the call)
        self.f_before = None      # (digest, time, it) of the caller's object before
        self.f_after = None
        self.held_before = None   # {key: obs}
        self.held_after = None
        self.cfl = None
        self.tsave = None         # resolved floats (as passed)
        self.stop = None          # resolved dict or None
        self.dtlocal = False
        self.itstart = None
        self.trace = None
        self.outcome = None       # 'returned' | 'raised'
        self.exc = None
        self.exc_injected = False
        self.exc_tb = None
        self.result = None        # list of (digest, time, it, finite, data) or None
        self.result_objs = None
        self.nit = None
        self.totnit = None
        self.qn = None            # (digest, time, it) of solver.Qn after
        self.mons = None          # list of dicts: spec, level, before_len, it, time, value
        self.candidates = None    # [(label, traj, offset)] or None (= unspecified)
        self.cand_note = None
        self.fault_specs = []
        self.flush_mode = None
        self.flush_bytes = None
        self.args_mutated = None
        self.model_failed = False
        self.by_copy = False
        self.mon_foreign = []


class RunResult:
    def __init__(self):
        self.records = []
        self.events = None
        self.log_digest = None
        self.violations = []      # (prop, invariant, op index, detail)
        self.harness_error = None
        self.world = None
        self.model = None
        self.stats = {}
        self.globals_changed = []


def _resolve_times(places, times, hs, t0, tottime, H):
    """Turn symbolic placements into floats using the model's step times."""
    out = []
    n = len(times) - 1

    def tk(i):
        return times[min(max(i, 0), n)]

    def hk(i):
        if not hs:
            return H
        return hs[min(max(i, 0), len(hs) - 1)]

    for p in places:
        k = p["k"]
        if k == "abs":
            v = unhex(p["t"])
        elif k == "start":
            v = t0
        elif k == "start_minus":
            v = t0 - unhex(p["eps"]) * H
        elif k == "inside":
            i = p["i"]
            v = tk(i) + unhex(p["th"]) * (tk(i + 1) - tk(i) if i + 1 <= n else hk(i))
        elif k == "boundary":
            v = tk(p["i"])
            u = p.get("ulps", 0)
            for _ in range(abs(u)):
                v = float(np.nextafter(v, np.inf if u > 0 else -np.inf))
        elif k == "sumboundary":
            # t_i + h_{i+1} evaluated in floating point (what `t + dt` gives)
            i = min(max(p["i"], 0), max(n - 1, 0))
            v = tk(i) + hk(i)
            u = p.get("ulps", 0)
            for _ in range(abs(u)):
                v = float(np.nextafter(v, np.inf if u > 0 else -np.inf))
        elif k == "int":
            v = float(math.floor(t0) + p["v"]) if math.isfinite(t0) else float("nan")  # plain integers
        elif k == "lin":
            v = t0 + p["j"] * (tk(p["n"]) - t0) / p["m"]
        elif k == "stop":
            v = tottime if tottime is not None else tk(n)
        elif k == "beyond":
            base = tottime if tottime is not None else tk(n)
            v = base + unhex(p["th"]) * H
        else:
            raise HarnessError("placement " + k)
        out.append(float(v))
    return out


def _increasing(ts, t0):
    """Property admits strictly increasing lists only: sort, drop offenders, keep
    a gap of MIN_GAP_ULPS so that snapshot stamps are attributable."""
    out = []
    for v in sorted(ts):
        if not np.isfinite(v):
            continue
        if out and not (v > out[-1] + MIN_GAP_ULPS * max(ulp(v), ulp(out[-1]), ulp(t0))):
            continue
        out.append(v)
    return out


class Executor:
    def __init__(self, sched, with_faults=True, props=("C07", "C08"), online=None):
        self.sched = sched
        self.with_faults = with_faults
        self.props = props
        self.online = online      # callable(record, executor) -> list of violations
        self.rec = Recorder()
        self.res = RunResult()
        self.world = None
        self.model = None
        self.held = {}
        self.results = {}
        self.mon_objs = {}
        self.origin = {}          # (op, k) -> (traj, step index, is_fallback)
        self.solver_hist = {}     # s -> list of (op index, status)
        self.op_traj = {}         # op index -> (traj, offset, N)
        self.stop_objs = {}       # op index -> (dict object passed, pristine content)
        self.tsave_objs = {}      # op index -> (list/array object passed, pristine values)
        self._odisc = None

    # ------------------------------------------------------------------
    def run(self):
        saved_clock = getattr(tnum, "myclock", None)
        old_err = np.seterr(all="ignore")
        npseam = patched_np(self.rec, bool(self.sched.get("alloc")))
        guard = GlobalGuard.get()
        try:
            npseam.__enter__()
            if saved_clock is not None:
                tnum.myclock = self.rec.clock
            self.rec.clock_mode = self.sched["world"].get("clock", "normal") if self.with_faults else "normal"
            self.world = World(self.sched["world"], self.rec)
            self.model = Model(self.world)
            self.res.world = self.world
            self.res.model = self.model
            for i, f in enumerate(self.world.fields):
                self.held[("init", i)] = f
            for i, op in enumerate(self.sched["ops"]):
                r = self._do_op(i, op)
                self.res.records.append(r)
                if self.online is not None:
                    v = self.online(r, self)
                    if v:
                        self.res.violations.extend(v)
                        break
        except HarnessError as e:
            self.res.harness_error = "HarnessError: %s\n%s" % (e, traceback.format_exc())
        except SimBudget as e:  # escaped outside an op: harness bug
            self.res.harness_error = "SimBudget escaped: %s" % e
        except Exception as e:  # noqa
            self.res.harness_error = "%s: %s\n%s" % (type(e).__name__, e, traceback.format_exc())
        finally:
            npseam.__exit__(None, None, None)
            if saved_clock is not None:
                tnum.myclock = saved_clock
            self.res.globals_changed = guard.check_restore()
            np.seterr(**old_err)
        self.res.events = self.rec.events
        self.res.log_digest = digest_log(self.rec.events)
        return self.res

    def _mon_dicts(self):
        out = []
        for i, d in enumerate(self.world.cmon):
            if d is not None:
                out.append(("constructor-level monitors of solver %d" % i, d))
        for mid in sorted(self.mon_objs, key=repr):
            out.append(("monitors dictionary #%s" % (mid,), self.mon_objs[mid]))
        return out

    def _mon_fingerprints(self):
        return [(label, id(d), fingerprint(d)) for label, d in self._mon_dicts()]

    def chain_steps(self, r):
        """Completed steps that extend the trajectory, judged from the history alone:
        among the steps that start from the current trajectory state with the full CFL
        length of that state, the one whose output a later step starts from (the last
        such step if there is none: end of the history)."""
        from .oracles import expected_tick
        key = lambda d, t: (d, float(t).hex())
        oks = [x for x in r.trace.steps if x.status == "ok"]
        inkeys = [key(x.dig_in, x.t_in) for x in r.trace.steps]
        idx_of = {id(x): n for n, x in enumerate(r.trace.steps)}
        cur = key(r.f_before[0], r.f_before[1])
        chain = []
        n = 0
        while n < len(oks):
            cands = []
            for x in oks[n:n + 256]:   # steps from one state are taken close together
                if key(x.dig_in, x.t_in) != cur:
                    continue
                et = expected_tick(self, r, x)
                if not (bool(np.all(np.isfinite(et))) and float(np.min(et)) > 0):
                    raise ValueError("inadmissible time step")
                if r.dtlocal:
                    full_len = x.dt_is_array and bool(np.array_equal(x.dt, et))
                else:
                    full_len = (not x.dt_is_array) and x.dt == float(np.min(et))
                if full_len:
                    cands.append(x)
            if not cands:
                break
            pick = None
            for x in cands:
                out = key(x.dig_out, x.t_out)
                if out != cur and any(k == out for k in inkeys[idx_of[id(x)] + 1:idx_of[id(x)] + 513]):
                    pick = x
            if pick is None:
                pick = cands[-1]
            chain.append(pick)
            cur = key(pick.dig_out, pick.t_out)
            n = oks.index(pick, n) + 1
        return chain

    def _reclassify(self, r):
        """Full/side classification normally comes from the identity of `solver.Qn`.
        When that disagrees with the public iteration counter (the solver keeps its
        current state elsewhere), use the history-based chain if *it* agrees."""
        tr = r.trace
        tr.classified_by = "identity"
        full = tr.full_steps()
        ok_chain = True
        prev = (r.f_before[0], float(r.f_before[1]).hex())
        for x in full:
            if (x.dig_in, float(x.t_in).hex()) != prev:
                ok_chain = False
                break
            prev = (x.dig_out, float(x.t_out).hex())
        if len(full) == r.nit and ok_chain:
            return
        try:
            chain = self.chain_steps(r)
        except ValueError:
            # NaN / non-positive time steps (unphysical state): the history cannot tell
            # full from side steps; with no usable identity either, the call is a discard
            tr.classified_by = "unknown"
            return
        except Exception:  # noqa
            return
        if r.outcome == "returned":
            if len(chain) != r.nit:
                return
        else:
            # interrupted call: the step completed last may not have been counted yet
            if not (len(chain) - 1 <= r.nit <= len(chain)):
                return
            chain = chain[:r.nit]
        ids = {id(x) for x in chain}
        for x in tr.steps:
            if x.status == "ok":
                x.kind = "full" if id(x) in ids else "side"
        tr.classified_by = "history"
        self.rec.ev("reclassified", r.i, tuple(x.idx for x in chain))

    def oracle_disc(self):
        """Fresh, unrecorded discretisation used by the oracles for pure evaluations."""
        if self._odisc is None:
            self._odisc = self.world.make_disc(None)
        return self._odisc

    # ------------------------------------------------------------------
    def _lookup(self, ref):
        if "init" in ref:
            return ("init", ref["init"] % len(self.world.fields))
        j, k = ref["res"]
        objs = self.results.get(j)
        if not objs:
            return ("init", 0)
        k = k % len(objs)
        if not is_finite_field(objs[k]) or \
                max(float(np.max(np.abs(d))) for d in objs[k].data) > 1e12:
            return ("init", 0)  # blown-up result of an unstable run: not an admissible input
        return ("res", j, k)

    def _faults_for(self, i):
        if not self.with_faults:
            return []
        return [f for f in self.sched.get("faults", []) if f["op"] == i]

    def _mons(self, op, s):
        """Return the call-level monitors dict (or None) for this op."""
        spec = op.get("mon")
        if not spec:
            return None
        mid = op.get("mon_id")
        if mid is not None and mid in self.mon_objs:
            return self.mon_objs[mid]
        d = mon_dict(spec)
        if mid is not None:
            self.mon_objs[mid] = d
        return d

    def _candidates(self, op, s, key, f, cfl, dtlocal):
        """Model trajectories this operation may legitimately follow (DESIGN 4).

        Returns (list of candidates | None, note); None = unspecified memory."""
        cls = self.world.spec["solvers"][s]["cls"]
        fresh = ("fresh", None, 0)
        if cls not in IMPLICIT:
            # one-step explicit integrators carry no memory: continuing from a
            # field is the same map as starting from it (split == single follows
            # from P1 of both calls)
            return [fresh], "memoryless integrator: fresh"
        if op["op"] == "solve" or key[0] == "init":
            return [fresh], "solve / initial field: fresh"
        org = self._origin(key[1], key[2])
        if org is None:
            return [fresh], "restart from a field that is no trajectory end state: fresh"
        traj, idx, is_fallback, osolver, oop = org
        if osolver != s:
            # integrator memory lives in the solver object: another object can only start afresh
            return [fresh], "end state of another solver object's call: fresh"
        if op["f"].get("copy"):
            is_fallback = False  # a copy is never the solver's own final state object
            if traj is None:
                return [fresh], "copy of an end state with unspecified memory: fresh"
        hist = self.solver_hist.get(s, [])
        if traj is None:
            # end state of a call whose own memory was unspecified: whatever continues it is too
            if is_fallback:
                return None, "continuation of a call with unspecified memory: unspecified"
            return [fresh], "end state (not the returned final state object) of a call with unspecified memory: fresh"
        cont = ("continue", (traj, idx), idx)
        if osolver == s and hist and hist[-1][0] == oop and hist[-1][1] == "completed" and is_fallback:
            return [cont], "immediate continuation from the returned final state"
        if osolver == s and is_fallback and hist and hist[-1][1] in ("step", "crashed"):
            completed = [h for h in hist if h[1] == "completed"]
            if completed and completed[-1][0] == oop:
                return None, "continuation after a crashed call / direct step: unspecified memory"
        return [cont, fresh], "end state but not an immediate continuation: either reading"

    def _origin(self, j, k):
        """Is result k of op j the end state of op j's trajectory?  (lazy)

        None: no.  Otherwise (traj | None, index, is_fallback, solver, op); traj is
        None when op j followed no specified model trajectory."""
        if (j, k) in self.origin:
            return self.origin[(j, k)]
        r = self.res.records[j] if j < len(self.res.records) else None
        org = None
        if r is not None and r.kind in ("solve", "restart") and r.outcome == "returned" and r.result:
            dig, t, it, fin, data = r.result[k]
            fulls = r.trace.full_steps()
            if r.qn is not None:
                end = (r.qn[0], r.qn[1])
            elif fulls:
                end = (fulls[-1].dig_out, fulls[-1].t_out)
            else:
                end = (r.f_before[0], r.f_before[1])
            if dig == end[0] and float(t).hex() == float(end[1]).hex():
                nside = len(r.trace.side_steps())
                is_fallback = (len(r.result) == 1 and nside == 0 and r.nit >= 1)
                m = self.match_of(r)
                if m is not None:
                    label, traj, offset = m
                    org = (traj, offset + r.nit, is_fallback, r.s, r.i)
                else:
                    org = (None, None, is_fallback, r.s, r.i)
        self.origin[(j, k)] = org
        return org

    def match_of(self, r):
        """First candidate trajectory that explains the whole observation, bit for
        bit: the chain of full steps *and* every returned snapshot (None if none
        does or memory is unspecified).  r._mismatch / r._snap_mismatch describe
        the best failing candidate for the report."""
        if hasattr(r, "_match"):
            return r._match
        r._match = None
        r._mismatch = None
        r._snap_mismatch = None
        if r.candidates is None:
            return None
        full = r.trace.full_steps()
        for label, traj, off in r.candidates:
            try:
                traj.advance(off + len(full), r.cfl, r.dtlocal)
            except np.linalg.LinAlgError:
                traj.broken = True
            except Exception as e:  # noqa
                raise HarnessError("reference model failed: %r" % (e,))
            if traj.broken or len(traj.states) < off + len(full) + 1:
                r.model_failed = True
                return None
            ok = True
            for k, st in enumerate(full):
                if st.dig_out != traj.digs[off + k + 1] or \
                        float(st.t_out).hex() != float(traj.states[off + k + 1].time).hex():
                    ok = False
                    if r._mismatch is None:
                        ref = traj.states[off + k + 1]
                        diff = max(float(np.max(np.abs(np.nan_to_num(a - b)))) for a, b in zip(st.data_out, ref.data))
                        r._mismatch = (label, k + 1, diff, st.t_out, float(ref.time))
                    break
            if not ok:
                continue
            sm = self._snap_mismatch(r, traj, off, full)
            if sm is not None:
                if r._snap_mismatch is None:
                    r._snap_mismatch = (label,) + sm
                continue
            r._match = (label, traj, off)
            break
        return r._match

    def singular_in_model(self, r):
        """The call raised LinAlgError without injection: does a fresh copy of the
        integrator memory taking the same step from the same state fail as well?
        (then the configuration is numerically inadmissible: a discard)"""
        if not isinstance(r.exc, np.linalg.LinAlgError) or not r.candidates:
            return False
        aborted = [x for x in r.trace.steps if x.status == "raised"]
        if not aborted:
            return False
        x = aborted[-1]
        nfull = len(r.trace.full_steps())
        for label, traj, off in r.candidates:
            try:
                traj.advance(off + nfull, r.cfl, r.dtlocal)
            except np.linalg.LinAlgError:
                return True
            except Exception:  # noqa
                continue
            if traj.broken:
                return True  # the undisturbed trajectory is singular itself
            if off + nfull >= len(traj.digs) or traj.digs[off + nfull] != x.dig_in:
                continue
            try:
                if x.dt_is_array:
                    t2 = traj.truncated(off + nfull)
                    t2.integ.step(t2.q, x.dt)
                else:
                    traj.side(off + nfull, x.dt)
            except np.linalg.LinAlgError:
                return True
            except Exception:  # noqa
                continue
        return False

    def _snap_mismatch(self, r, traj, off, full):
        """P2 for one candidate: every returned snapshot produced by a side step equals
        the model's step of the same length from the same trajectory state."""
        if r.outcome != "returned" or not r.result:
            return None
        side = r.trace.side_steps()
        for k, sn in enumerate(r.result):
            from .oracles import near
            cand = [x for x in side if x.dig_out == sn[0] and near(x.t_out, sn[1], r.f_before[1])]
            if not cand:
                continue
            x = cand[0]
            from .oracles import state_index
            kk = state_index(r, full, x)
            if x.dt_is_array or not (x.dt > 0):
                continue  # degenerate side step: C07's business
            if float(x.t_in).hex() != float(traj.states[off + kk].time).hex() or x.dig_in != traj.digs[off + kk]:
                return (k, kk, "from", 0.0, sn[1])
            try:
                ref = traj.side(off + kk, x.dt)
            except np.linalg.LinAlgError:
                r.model_failed = True
                return None
            except Exception as e:  # noqa
                raise HarnessError("reference model side step failed: %r" % (e,))
            if digest_field(ref) != sn[0]:
                # a side step may also be taken by a brand-new integrator (no memory: gear then
                # starts with its Crank-Nicolson step): equally "a forward step from the trajectory"
                if traj.has_memory:
                    try:
                        q2 = deep_field_copy(traj.states[off + kk])
                        q2.model = traj.disc.model
                        with np.errstate(all="ignore"):
                            integrator_class(traj.clsname)(self.world.mesh, traj.disc).step(q2, x.dt)
                        if digest_field(q2) == sn[0]:
                            continue
                    except Exception:  # noqa
                        pass
                d = max(float(np.max(np.abs(np.nan_to_num(a - b)))) for a, b in zip(sn[4], ref.data))
                return (k, kk, "value", d, sn[1])
        return None

    def _traj_for(self, cand, cls, f0, cfl, dtlocal):
        label, src, off = cand
        if label == "fresh":
            return self.model.fresh(cls, f0, cfl, dtlocal), 0
        traj, idx = src
        # same parameters as the whole parent trajectory: extend it in place
        if traj.params == (cfl, dtlocal) and all(sg == (cfl, dtlocal) for sg in traj.segs):
            return traj, idx
        key = ("cont", id(traj), idx, float(cfl).hex(), bool(dtlocal))
        t = self.model.memo.get(key)
        if t is None:
            t = traj.truncated(idx)
            t.params = (cfl, dtlocal)
            self.model.memo[key] = t
            self.model.memo[("keep", id(traj))] = traj
        return t, idx

    # ------------------------------------------------------------------
    def _do_op(self, i, op):
        r = OpRecord()
        r.i = i
        r.spec = op
        r.kind = op["op"]
        s = op["s"] % len(self.world.solvers)
        r.s = s
        solver = self.world.solvers[s]
        r.cls = self.world.spec["solvers"][s]["cls"]
        key = self._lookup(op["f"])
        r.f_ref = key
        f = self.held[key]
        r.fault_specs = self._faults_for(i)
        if r.kind == "step":
            return self._do_step(r, op, solver, f)
        cfl = unhex(op["cfl"])
        r.cfl = cfl
        r.dtlocal = bool(op.get("dir", {}).get("dtlocal"))
        r.f0 = deep_field_copy(f)
        r.itstart = 0 if r.kind == "solve" else max(int(f.it), 0)
        r.by_copy = bool(op["f"].get("copy"))
        if r.by_copy:
            # the caller hands over `field.copy()` (public API: "returns copy of current
            # instance"); expectations stay those of the original field
            f = f.copy()
        # -- model expectation, used to place deadlines ------------------
        cands, note = self._candidates(op, s, key, f, cfl, r.dtlocal)
        r.cand_note = note
        placing = cands[0] if cands else ("fresh", None, 0)
        ptraj, poff = self._traj_for(placing, r.cls, r.f0, cfl, r.dtlocal)
        nsteps = op.get("horizon", 8)
        r.model_failed = False
        try:
            ptraj.advance(poff + nsteps + 2, cfl, r.dtlocal)
        except np.linalg.LinAlgError:
            # singular implicit system in the undisturbed trajectory itself: numerically
            # inadmissible configuration (NaN/inf matrix); the operation is a discard
            r.model_failed = True
            ptraj.broken = True
        except Exception as e:  # model must not fail on admissible input
            raise HarnessError("reference model failed: %r" % (e,))
        if ptraj.broken:
            r.model_failed = True  # (also when an earlier operation already found it singular)
        times = ptraj.times()[poff:poff + nsteps + 3]
        hs = [float(np.min(x)) for x in ptraj.ticks[poff:poff + nsteps + 2]]
        H = hs[0] if hs else 1.0
        while len(times) < nsteps + 3:
            times.append((times[-1] if times else float(f.time)) + H)
        t0 = float(f.time)
        stop = None
        tottime = None
        shared = self.stop_objs.get(op.get("stop_share")) if op.get("stop_share") is not None else None
        if shared is not None:
            # the same dictionary object as an earlier call (whatever that call left in
            # it); the oracle judges against what the caller wrote into it
            stop, intended = shared
            tottime = intended.get("tottime")
        elif op.get("stop") is not None:
            stop = {}
            sp = op["stop"]
            if "tottime" in sp:
                tottime = _resolve_times([sp["tottime"]], times, hs, t0, None, H)[0]
                stop["tottime"] = tottime
            if "maxit" in sp:
                stop["maxit"] = int(sp["maxit"]) if float(sp["maxit"]) == int(sp["maxit"]) else float(sp["maxit"])
        ts_shared = self.tsave_objs.get(op.get("tsave_share")) if op.get("tsave_share") is not None else None
        if ts_shared is not None:
            # the very list/array object an earlier call was given (callers re-use their
            # save-time list for the restart); judged against what the caller put into it
            ts = list(ts_shared[1])
        else:
            ts = _resolve_times(op.get("tsave", []), times, hs, t0, tottime, H)
            ts = _increasing(ts, t0)
        if not ts and not stop:
            stop = {"maxit": 3}
        r.tsave = ts
        if shared is not None:
            r.stop = dict(shared[1])
        else:
            r.stop = dict(stop) if stop is not None else None
            if stop is not None:
                self.stop_objs[i] = (stop, dict(stop))
        tt = op.get("tsave_type", "list")
        if tt == "ndarray":
            ts_arg = np.array(ts, dtype=float)
        elif tt == "tuple":
            ts_arg = tuple(ts)
        elif tt == "npscalars":
            ts_arg = [np.float64(v) for v in ts]
        else:
            ts_arg = list(ts)
        if ts_shared is not None:
            ts_arg = ts_shared[0]
        elif tt in ("list", "tuple") and any(p.get("k") == "int" for p in op.get("tsave", [])):
            # integral save times are handed over as Python ints, like callers write them
            conv = [int(v) if float(v).is_integer() and abs(v) < 2 ** 40 else v for v in ts]
            ts_arg = tuple(conv) if tt == "tuple" else conv
        if ts_shared is None:
            self.tsave_objs[i] = (ts_arg, list(ts))
        mons = self._mons(op, s)
        directives = {"dtlocal": True} if r.dtlocal else {}
        if op.get("dir", {}).get("verbose"):
            directives["verbose"] = True
        r.flush_mode = op.get("flush")
        sink = FlushSink(self.rec, r.flush_mode) if r.flush_mode else None
        # -- candidates as trajectories -----------------------------------
        if cands is None:
            r.candidates = None
        else:
            r.candidates = []
            for c in cands:
                tj, off = self._traj_for(c, r.cls, r.f0, cfl, r.dtlocal)
                r.candidates.append((c[0], tj, off))
        # -- observations before --------------------------------------------
        r.f_before = field_obs(f)
        r.held_before = {k: field_obs(v) for k, v in self.held.items()}
        mon_list = []
        if self.world.cmon[s] is not None:
            for name, e in self.world.cmon[s].items():
                if not (mons and name in mons):
                    mon_list.append(("ctor", name, e))
        if mons:
            for name, e in mons.items():
                mon_list.append(("call", name, e))
        mon_before = []
        mon_before_obj = []
        mon_before_last = []
        for level, name, e in mon_list:
            o = e.get("output")
            mon_before.append(len(o._it) if o is not None else 0)
            mon_before_obj.append((o, (list(o._it), list(o._time), list(o._value)) if o is not None else None))
            try:
                mon_before_last.append((int(o._it[-1]), float(o._time[-1]), float(o._value[-1]))
                                       if o is not None and len(o._it) else None)
            except Exception:  # noqa
                mon_before_last.append(None)
        kwargs = {}
        if stop is not None:
            kwargs["stop"] = stop
        if mons is not None:
            kwargs["monitors"] = mons
        if directives:
            kwargs["directives"] = directives
        if sink is not None:
            kwargs["flush"] = sink
        stop_copy = dict(r.stop) if r.stop is not None else None
        mon_fp_before = self._mon_fingerprints()
        cfl_arg = cfl
        if op.get("np_args"):
            cfl_arg = np.float64(cfl)
            if stop is not None and shared is None:
                if "maxit" in stop and isinstance(stop["maxit"], int):
                    stop["maxit"] = np.int64(stop["maxit"])
                if "tottime" in stop:
                    stop["tottime"] = np.float64(stop["tottime"])
        # -- the call --------------------------------------------------------
        self.rec.begin_op(i, solver, r.fault_specs, budget=op.get("budget"),
                          init_key=(digest_field(f), float(f.time).hex()))
        fn = solver.solve if r.kind == "solve" else solver.restart
        saved_stdout = sys.stdout
        try:
            if "verbose" in directives:
                sys.stdout = _NullOut()
            out = fn(f, cfl_arg, ts_arg, **kwargs)
            r.outcome = "returned"
        except BaseException as e:  # noqa
            if isinstance(e, HarnessError):
                sys.stdout = saved_stdout
                raise
            out = None
            r.outcome = "raised"
            r.exc = e
            fired = [x[2] for x in self.rec.op.fired]
            r.exc_injected = any(e is x for x in fired)
            r.exc_tb = traceback.format_exc()
            if isinstance(e, (KeyboardInterrupt, SystemExit)):
                self.rec.end_op("raised")
                raise
        finally:
            sys.stdout = saved_stdout
        r.trace = self.rec.end_op(r.outcome)
        # -- observations after ------------------------------------------------
        r.f_after = field_obs(f)
        r.held_after = {k: field_obs(v) for k, v in self.held.items()}
        r.nit = int(solver.nit())
        r.totnit = int(solver.totnit())
        self._reclassify(r)
        qn = getattr(solver, "Qn", None)
        r.qn = field_obs(qn) if qn is not None else None
        def _fx(v):
            try:
                return float(v).hex()
            except Exception:  # noqa
                return repr(v)
        try:
            ts_now = [_fx(v) for v in (ts_arg.tolist() if hasattr(ts_arg, "tolist") else list(ts_arg))]
        except Exception:  # noqa
            ts_now = None
        ts_ref = [_fx(v) for v in (ts_shared[1] if ts_shared is not None else ts)]
        r.args_mutated = (ts_now != ts_ref) or \
            (stop is not None and {k: _fx(v) for k, v in stop.items()} != {k: _fx(v) for k, v in stop_copy.items()})
        # monitor dictionaries: those not involved in this call must be untouched; the
        # involved ones may only gain/replace the 'output' of their entries
        involved = {id(d) for d in (self.world.cmon[s], mons) if d is not None}
        r.mon_foreign = []
        for (label, d), (lab2, ident, fp) in zip(self._mon_dicts(), mon_fp_before):
            if id(d) in involved:
                if _spec_fp(d) != _spec_fp_saved(fp):
                    r.mon_foreign.append(label + " (its set of monitors or their parameters)")
            elif fingerprint(d) != fp:
                r.mon_foreign.append(label)
        r.mons = []
        for (level, name, e), nb, (o_old, lists_old), last_old in zip(mon_list, mon_before, mon_before_obj, mon_before_last):
            o = e.get("output")
            kept = False
            if o is not None and o is o_old and lists_old is not None:
                try:
                    kept = (list(o._it[:nb]) == lists_old[0] and list(o._time[:nb]) == lists_old[1] and
                            [repr(x) for x in o._value[:nb]] == [repr(x) for x in lists_old[2]])
                except Exception:  # noqa
                    kept = False
            if (r.kind == "solve" and level == "call") or not kept:
                # solve() starts the records of call-level monitors afresh; so does any call
                # that replaced or emptied the output object instead of appending to it
                nb = 0
                last_old = None
            ent = {"level": level, "name": name, "type": e.get("type", name),
                   "frequency": e.get("frequency", DEFAULT_FREQ), "data": e.get("data"),
                   "before": nb, "last_before": last_old,
                   "it": list(o._it) if o is not None else [],
                   "time": [float(x) for x in o._time] if o is not None else [],
                   "value": [float(x) for x in o._value] if o is not None else []}
            r.mons.append(ent)
        if sink is not None:
            r.flush_bytes = len(sink.getvalue())
        if r.outcome == "returned":
            try:
                objs = [out[k] for k in range(len(out))]
            except Exception as e:  # noqa
                raise HarnessError("result is not a sequence of fields: %r" % (e,))
            r.result_objs = objs
            r.result = [(digest_field(o), float(o.time), int(o.it), is_finite_field(o),
                         [np.array(d, copy=True) for d in o.data]) for o in objs]
            self.results[i] = objs
            for k, o in enumerate(objs):
                self.held[("res", i, k)] = o
        # -- bookkeeping for later continuation decisions --------------------------
        status = "completed" if r.outcome == "returned" else "crashed"
        self.solver_hist.setdefault(s, []).append((i, status))
        self.rec.ev("obs", i, r.outcome, r.nit, r.totnit, r.qn,
                    tuple((x[0], x[1], x[2]) for x in (r.result or [])),
                    tuple((m["name"], tuple(m["it"]), tuple(m["time"]), tuple(m["value"])) for m in r.mons))
        return r

    # ------------------------------------------------------------------
    def _do_step(self, r, op, solver, f):
        g = deep_field_copy(f)
        r.f0 = deep_field_copy(f)
        d = op["dt"]
        if "scalar" in d:
            dt = unhex(d["scalar"])
        else:
            w = [unhex(x) for x in d["array"]]
            n = self.world.ncell
            dt = np.array([w[j % len(w)] for j in range(n)], dtype=float)
        r.held_before = {k: field_obs(v) for k, v in self.held.items()}
        r.f_before = field_obs(f)
        self.rec.begin_op(r.i, solver, r.fault_specs, direct=True)
        try:
            solver.step(g, dt)
            r.outcome = "returned"
        except BaseException as e:  # noqa
            if isinstance(e, HarnessError):
                raise
            r.outcome = "raised"
            r.exc = e
            r.exc_injected = any(e is x[2] for x in self.rec.op.fired)
            r.exc_tb = traceback.format_exc()
            if isinstance(e, (KeyboardInterrupt, SystemExit)):
                self.rec.end_op("raised")
                raise
        r.trace = self.rec.end_op(r.outcome)
        if r.outcome == "raised" and not r.exc_injected and isinstance(r.exc, np.linalg.LinAlgError):
            # numerically singular system (blown-up input state)?  a brand-new integrator on a
            # brand-new discretisation decides: if it is singular there too, the step is a discard
            try:
                d2 = self.world.make_disc(None)
                q2 = deep_field_copy(r.f0)
                q2.model = d2.model
                with np.errstate(all="ignore"):
                    integrator_class(r.cls)(self.world.mesh, d2).step(q2, dt)
            except np.linalg.LinAlgError:
                r.model_failed = True
            except Exception:  # noqa
                pass
        r.f_after = field_obs(f)
        r.held_after = {k: field_obs(v) for k, v in self.held.items()}
        if r.outcome == "returned":
            r.result_objs = [g]
            r.result = [(digest_field(g), float(g.time), int(g.it), is_finite_field(g),
                         [np.array(x, copy=True) for x in g.data])]
            self.results[r.i] = [g]
            self.held[("res", r.i, 0)] = g
        self.solver_hist.setdefault(r.s, []).append((r.i, "step"))
        self.rec.ev("obs-step", r.i, r.outcome, tuple((x[0], x[1], x[2]) for x in (r.result or [])))
        return r
