"""Pure reference model: a trajectory is a fresh integrator iterating

    dt = calc_timestep(q, cfl);  step(q, min(dt) | dt)

on a fresh discretisation.  It bypasses solve/restart/_solve (the code under
test for C07/C08) and re-uses step()/rhs(), which those properties are not about.
No hidden state by construction: every Traj owns its integrator and its
discretisation, and continuation is an explicit operation on the value."""
import copy

import numpy as np

from .core import digest_field, is_finite_field
from .world import IMPLICIT, deep_field_copy, integrator_class


class Traj:
    """Model trajectory of one integrator class from one initial field value."""

    def __init__(self, world, clsname, f0):
        self.world = world
        self.clsname = clsname
        self.has_memory = clsname in IMPLICIT
        self.disc = world.make_disc(None)
        self.integ = integrator_class(clsname)(world.mesh, self.disc)
        self.q = self._rebase(f0)
        self.states = [deep_field_copy(self.q)]   # states[k] after k steps
        self.digs = [digest_field(self.q)]
        self.ticks = []                            # ticks[k]: array used for step k -> k+1
        self.clones = {}                           # integrator memory before step k
        self.segs = []                             # (cfl, dtlocal) per step
        self.finite = is_finite_field(self.q)
        self.params = None
        self.broken = False

    def _rebase(self, f):
        g = deep_field_copy(f)
        # the model's own discretisation owns the model object of its fields
        g.model = self.disc.model
        return g

    def _clone_integ(self):
        if not self.has_memory:
            return self.integ
        memo = {id(self.integ.modeldisc): self.integ.modeldisc,
                id(self.integ.mesh): self.integ.mesh}
        return copy.deepcopy(self.integ, memo)

    def advance(self, n, cfl, dtlocal):
        """Make sure at least n steps exist (all with this cfl / directive)."""
        with np.errstate(all="ignore"):  # the model is immune to a leaked numpy error state
            self._advance(n, cfl, dtlocal)
        return self

    def _advance(self, n, cfl, dtlocal):
        while len(self.states) - 1 < n and not self.broken:
            k = len(self.states) - 1
            self.clones[k] = self._clone_integ()
            dt = self.disc.calc_timestep(self.q, cfl)
            dt = np.array(dt, dtype=float, copy=True)
            self.ticks.append(dt)
            self.segs.append((cfl, dtlocal))
            self.integ.step(self.q, dt if dtlocal else min(dt))
            self.states.append(deep_field_copy(self.q))
            self.digs.append(digest_field(self.q))
            if not is_finite_field(self.q):
                self.finite = False
        return self

    def times(self):
        return [s.time for s in self.states]

    def side(self, k, dt):
        """Model snapshot from trajectory state k: a fresh copy of the integrator
        memory at k takes one step of length dt (= save time - t_k)."""
        q = deep_field_copy(self.states[k])
        q.model = self.disc.model
        integ = self.clones[k] if k in self.clones else self._clone_integ()
        if self.has_memory:
            memo = {id(integ.modeldisc): integ.modeldisc, id(integ.mesh): integ.mesh}
            integ = copy.deepcopy(integ, memo)
        with np.errstate(all="ignore"):
            integ.step(q, dt)
        return q

    def truncated(self, n):
        """A new Traj value equal to this one cut after n steps (used to continue
        with other parameters); shares nothing mutable with self."""
        t = Traj.__new__(Traj)
        t.world = self.world
        t.clsname = self.clsname
        t.has_memory = self.has_memory
        t.disc = self.world.make_disc(None)
        if n in self.clones:
            src = self.clones[n]
        elif n == len(self.states) - 1:
            src = self.integ
        else:
            raise KeyError(n)
        if self.has_memory:
            memo = {id(src.mesh): src.mesh, id(src.modeldisc): src.modeldisc}
            t.integ = copy.deepcopy(src, memo)
            t.integ.modeldisc = t.disc
        else:
            t.integ = integrator_class(self.clsname)(self.world.mesh, t.disc)
        t.q = deep_field_copy(self.states[n])
        t.q.model = t.disc.model
        t.states = [deep_field_copy(s) for s in self.states[: n + 1]]
        t.digs = list(self.digs[: n + 1])
        t.ticks = [np.array(x, copy=True) for x in self.ticks[:n]]
        t.clones = {}
        t.segs = list(self.segs[:n])
        t.params = None
        t.broken = False
        t.finite = all(is_finite_field(s) for s in t.states)
        return t


class Model:
    """Memoising front end."""

    def __init__(self, world):
        self.world = world
        self.memo = {}
        self.hits = 0
        self.misses = 0

    def fresh(self, clsname, f0, cfl, dtlocal):
        key = (clsname, digest_field(f0), float(f0.time).hex(), float(cfl).hex(), bool(dtlocal))
        t = self.memo.get(key)
        if t is None:
            self.misses += 1
            t = Traj(self.world, clsname, f0)
            t.params = (float(cfl), bool(dtlocal))
            self.memo[key] = t
        else:
            self.hits += 1
        return t
