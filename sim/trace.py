"""Recorder: totally ordered event log, per-operation trace, fault triggers.

The recorder is the simulator's side of every seam.  It never reads a real clock
and never draws random numbers."""
import errno

import numpy as np

from .core import (HarnessError, SimBudget, SimFault, SimInterrupt,
                   digest_arrays, digest_field, is_finite_field)

TICK_BUDGET = 400


class StepRec:
    __slots__ = ("idx", "seq0", "seq1", "t_in", "dig_in", "dt", "dtmin", "dt_is_array",
                 "dt_dig", "t_out", "dig_out", "finite_out", "status", "obj", "kind",
                 "tick_idx", "rhs0", "rhs1", "clone", "data_out", "data_in", "etick")

    def as_tuple(self):
        return (self.idx, self.kind, self.t_in, self.dig_in, self.dt_dig, self.dtmin,
                self.t_out, self.dig_out, self.status, self.tick_idx)


class TickRec:
    __slots__ = ("idx", "seq", "t", "dig_f", "dt", "dtmin", "dig")


class OpTrace:
    def __init__(self, opi):
        self.opi = opi
        self.ticks = []
        self.steps = []
        self.rhs = []  # (seq, t, phase)
        self.counts = {"rhs": 0, "tick": 0, "linsolve": 0, "step": 0, "stepend": 0,
                       "alloc": 0, "flushw": 0, "clock": 0}
        self.fired = []  # (kind, n, exception object)
        self.budget_hit = False

    def full_steps(self):
        return [s for s in self.steps if s.kind == "full"]

    def side_steps(self):
        return [s for s in self.steps if s.kind == "side"]


class Recorder:
    def __init__(self):
        self.events = []
        self.seq = 0
        self.op = None          # current OpTrace
        self.solver = None      # registered solver object of the current op
        self.plan = {}          # kind -> {n: exc-kind}
        self.phase = []
        self.cur_step = None
        self.direct = False
        self.clock_mode = "normal"
        self.clock_n = 0
        self.enabled = True

    # -- log ----------------------------------------------------------------
    def ev(self, *e):
        self.seq += 1
        self.events.append((self.seq,) + e)
        return self.seq

    # -- op lifecycle ---------------------------------------------------------
    def begin_op(self, opi, solver, faults, direct=False, budget=None, init_key=None):
        self.op = OpTrace(opi)
        self.op.budget = budget or TICK_BUDGET
        self.op.init_key = init_key
        self.op.classified_by = "identity"
        self.solver = solver
        self.direct = direct
        self.plan = {}
        for f in faults:
            self.plan.setdefault(f["kind"], {})[f["n"]] = f.get("exc", "fault")
        self.phase = []
        self.cur_step = None
        self.ev("op-begin", opi)
        return self.op

    def end_op(self, outcome):
        self._resolve()
        self.ev("op-end", self.op.opi, outcome)
        op = self.op
        self.op = None
        self.solver = None
        self.plan = {}
        return op

    # -- fault trigger ------------------------------------------------------
    def _hit(self, kind):
        op = self.op
        if op is None:
            return
        op.counts[kind] += 1
        n = op.counts[kind]
        p = self.plan.get(kind)
        if p and n in p:
            exc = self._make_exc(kind, n, p[n])
            op.fired.append((kind, n, exc))
            self.ev("fault", kind, n, p[n], self.phase_name())
            raise exc

    @staticmethod
    def _make_exc(kind, n, how):
        tag = "injected %s#%d" % (kind, n)
        if how == "interrupt":
            return SimInterrupt(tag)
        if kind == "linsolve":
            return np.linalg.LinAlgError(tag)
        if kind == "alloc":
            return MemoryError(tag)
        if kind == "flushw":
            return OSError(errno.ENOSPC, tag)
        return SimFault(tag)

    def phase_name(self):
        s = self.cur_step
        base = "step%d" % s.idx if s is not None else "outside"
        if self.phase:
            base += "/" + "/".join(self.phase)
        return base

    def phase_push(self, p):
        self.phase.append(p)

    def phase_pop(self):
        self.phase.pop()

    # -- seams ----------------------------------------------------------------
    def on_rhs(self, f):
        if self.op is None:
            return
        self.op.rhs.append((self.seq + 1, float(f.time), self.phase_name()))
        self.ev("rhs", float(f.time), digest_field(f), self.phase_name())
        self._hit("rhs")

    def on_tick_begin(self, f):
        if self.op is None:
            return
        self._resolve()
        if f.time != f.time:
            # NaN time: `time >= tottime` can never hold again; the trajectory is
            # non-finite (outside the properties): stop the run now, as a discard
            self.op.budget_hit = True
            self.ev("budget-nan")
            raise SimBudget("NaN time")
        if self.op.counts["tick"] >= self.op.budget:
            self.op.budget_hit = True
            self.ev("budget")
            raise SimBudget("tick budget exhausted")
        self._hit("tick")

    def on_tick(self, f, dt):
        if self.op is None:
            return
        t = TickRec()
        t.idx = len(self.op.ticks)
        t.t = float(f.time)
        t.dig_f = digest_field(f)
        t.dt = np.array(dt, dtype=float, copy=True)
        t.dtmin = float(np.min(t.dt))
        t.dig = digest_arrays([t.dt])
        t.seq = self.ev("tick", t.idx, t.t, t.dig_f, t.dig, t.dtmin)
        self.op.ticks.append(t)

    def linsolve(self, mat, rhs):
        if self.op is not None:
            self.ev("linsolve", mat.shape[0])
            self._hit("linsolve")
        return np.linalg.solve(mat, rhs)

    def step_begin(self, integ, f, dt):
        if self.op is None:
            return None
        if self.cur_step is not None:
            # nested step() (none of the current integrators does that through
            # self.step): record only the outermost
            return None
        self._resolve()
        s = StepRec()
        s.idx = len(self.op.steps)
        s.t_in = float(f.time)
        s.dig_in = digest_field(f)
        s.data_in = [np.array(d, copy=True) for d in f.data]
        s.etick = None
        if self.op.counts["step"] >= 4 * self.op.budget:
            self.op.budget_hit = True
            self.ev("budget-steps")
            raise SimBudget("step budget exhausted")
        if np.ndim(dt) == 0:
            s.dt = float(dt)
            s.dtmin = float(dt)
            s.dt_is_array = False
            s.dt_dig = float(dt).hex()
        else:
            s.dt = np.array(dt, dtype=float, copy=True)
            s.dtmin = float(np.min(s.dt))
            s.dt_is_array = True
            s.dt_dig = digest_arrays([s.dt])
        s.t_out = None
        s.dig_out = None
        s.finite_out = None
        s.data_out = None
        s.status = "running"
        s.obj = f
        s.kind = "direct" if self.direct else None
        s.tick_idx = len(self.op.ticks) - 1
        s.rhs0 = self.op.counts["rhs"]
        s.rhs1 = None
        s.clone = integ is not self.solver
        s.seq0 = self.ev("step-begin", s.idx, s.t_in, s.dig_in, s.dt_dig)
        self.op.steps.append(s)
        self.cur_step = s
        self._hit("step")
        return s

    def step_abort(self, s, exc):
        if s is None:
            return
        s.status = "raised"
        s.rhs1 = self.op.counts["rhs"] if self.op else None
        self.ev("step-abort", s.idx, type(exc).__name__)
        if self.cur_step is s:
            self.cur_step = None

    def step_end(self, s, f):
        if s is None:
            return
        if f is not s.obj:
            raise HarnessError("step returned with another field object")
        s.t_out = float(f.time)
        s.dig_out = digest_field(f)
        s.finite_out = is_finite_field(f)
        s.data_out = [np.array(d, copy=True) for d in f.data]
        s.status = "ok"
        s.rhs1 = self.op.counts["rhs"]
        s.seq1 = self.ev("step-end", s.idx, s.t_out, s.dig_out)
        self.cur_step = None
        try:
            self._hit("stepend")
        except BaseException:
            raise

    def _resolve(self):
        """Classify finished steps as full (became the trajectory state) or side."""
        op = self.op
        if op is None or self.direct:
            return
        qn = getattr(self.solver, "Qn", None)
        start = getattr(op, "_resolved", 0)
        op._resolved = max(0, len(op.steps) - 1) if self.cur_step is not None else len(op.steps)
        for s in op.steps[start:]:
            if s.kind is None and s.status == "ok":
                s.kind = "full" if (qn is s.obj) else "side"
                self.ev("class", s.idx, s.kind)
            elif s.kind is None and s.status == "raised":
                s.kind = "aborted"

    # -- clock seam -----------------------------------------------------------
    def clock(self):
        self.clock_n += 1
        if self.op is not None:
            self.op.counts["clock"] += 1
        m = self.clock_mode
        n = self.clock_n
        if m == "normal":
            return 0.001 * n
        if m == "backwards":
            return 1000.0 - 7.0 * n
        if m == "nan":
            return float("nan")
        if m == "huge":
            return 1e300 * (1 + n % 2)
        if m == "jump":
            return 0.001 * n if n % 2 else -1e9
        raise HarnessError("clock mode " + m)


class FlushSink:
    """In-memory storage target for np.save(flush, ...): may fail or short-write."""

    def __init__(self, rec, mode):
        self.rec = rec
        self.mode = mode
        self.chunks = []

    def write(self, b):
        self.rec._hit("flushw")
        if self.mode == "short":
            b = bytes(b)[: max(0, len(b) // 2)]
        self.chunks.append(bytes(b))
        return len(b)

    def flush(self):
        pass

    def getvalue(self):
        return b"".join(self.chunks)


# --------------------------------------------------------------------------
# allocator seam: module-global `np` of the flowdyn modules


ALLOC_FUNCS = ["zeros", "zeros_like", "ones", "full_like", "repeat", "diag", "vstack", "hstack",
               "where", "array", "append", "sqrt", "maximum", "minimum", "abs", "sum", "average",
               "square", "expand_dims", "arange", "linspace"]


class NpProxy:
    """Forwards everything to numpy; the array-producing entry points flowdyn uses
    count as allocation events and may raise MemoryError at the k-th call."""

    def __init__(self, rec):
        d = self.__dict__
        d["_rec"] = rec
        for name in ALLOC_FUNCS:
            d[name] = self._wrap(getattr(np, name), rec)

    @staticmethod
    def _wrap(fn, rec):
        def alloc(*a, **kw):
            if rec.op is not None:
                rec._hit("alloc")
            return fn(*a, **kw)
        return alloc

    def __getattr__(self, name):
        v = getattr(np, name)
        self.__dict__[name] = v
        return v


def flowdyn_modules():
    import flowdyn._data
    import flowdyn.field
    import flowdyn.integration
    import flowdyn.mesh
    import flowdyn.meshbase
    import flowdyn.modeldisc
    import flowdyn.modelphy.burgers
    import flowdyn.modelphy.convection
    import flowdyn.modelphy.euler
    import flowdyn.modelphy.shallowwater
    import flowdyn.xnum
    return [flowdyn._data, flowdyn.field, flowdyn.integration, flowdyn.mesh, flowdyn.meshbase,
            flowdyn.modeldisc, flowdyn.modelphy.burgers, flowdyn.modelphy.convection,
            flowdyn.modelphy.euler, flowdyn.modelphy.shallowwater, flowdyn.xnum]


class patched_np:
    def __init__(self, rec, active):
        self.rec = rec
        self.active = active
        self.saved = []

    def __enter__(self):
        if not self.active:
            return self
        proxy = NpProxy(self.rec)
        for m in flowdyn_modules():
            if hasattr(m, "np"):
                self.saved.append((m, m.np))
                m.np = proxy
        return self

    def __exit__(self, *exc):
        for m, old in self.saved:
            m.np = old
        self.saved = []
        return False


# --------------------------------------------------------------------------
# library-global mutable state (class attributes, module containers, default
# arguments): fingerprinted once per process, compared and restored after every
# run so that one run can never influence the next (replay stays a pure function
# of the schedule); a change is counted and reported in the evidence.


def fingerprint(obj, depth=0):
    if depth > 6:
        return "..."
    if isinstance(obj, dict):
        return ("d",) + tuple((repr(k), fingerprint(v, depth + 1)) for k, v in sorted(obj.items(), key=lambda kv: repr(kv[0])))
    if isinstance(obj, (list, tuple)):
        return ("l",) + tuple(fingerprint(v, depth + 1) for v in obj)
    if isinstance(obj, (set, frozenset)):
        return ("s",) + tuple(sorted(repr(v) for v in obj))
    if isinstance(obj, np.ndarray):
        return ("nd", obj.shape, obj.tobytes())
    if isinstance(obj, (int, float, str, bool, type(None), complex, np.generic)):
        return repr(obj)
    if callable(obj):
        return ("fn", getattr(obj, "__qualname__", type(obj).__name__))
    d = getattr(obj, "__dict__", None)
    if isinstance(d, dict):
        return ("o", type(obj).__name__, fingerprint(d, depth + 1))
    return ("x", type(obj).__name__)


class GlobalGuard:
    _instance = None

    @classmethod
    def get(cls):
        if cls._instance is None:
            cls._instance = cls()
        return cls._instance

    def __init__(self):
        import copy
        import inspect
        self.items = []
        seen = set()

        def add(label, obj):
            if isinstance(obj, (dict, list, set)) and id(obj) not in seen:
                seen.add(id(obj))
                self.items.append((label, obj, copy.deepcopy(obj), fingerprint(obj)))

        def add_defaults(label, fn):
            for d in (getattr(fn, "__defaults__", None) or ()):
                add(label + " default argument", d)
            for d in (getattr(fn, "__kwdefaults__", None) or {}).values():
                add(label + " default argument", d)

        for mod in flowdyn_modules():
            for name, obj in list(vars(mod).items()):
                if name.startswith("__"):
                    continue
                if inspect.isclass(obj) and getattr(obj, "__module__", None) == mod.__name__:
                    for an, av in list(vars(obj).items()):
                        if an.startswith("__") and an != "__init__":
                            continue
                        if inspect.isfunction(av):
                            add_defaults("%s.%s.%s" % (mod.__name__, name, an), av)
                        else:
                            add("%s.%s.%s" % (mod.__name__, name, an), av)
                elif inspect.isfunction(obj) and getattr(obj, "__module__", None) == mod.__name__:
                    add_defaults("%s.%s" % (mod.__name__, name), obj)
                else:
                    add("%s.%s" % (mod.__name__, name), obj)

    def check_restore(self):
        """Names of library-global containers a run has changed (restored in place)."""
        import copy
        changed = []
        for label, obj, saved, fp in self.items:
            if fingerprint(obj) != fp:
                changed.append(label)
                fresh = copy.deepcopy(saved)
                if isinstance(obj, dict):
                    obj.clear()
                    obj.update(fresh)
                elif isinstance(obj, list):
                    obj[:] = fresh
                else:
                    obj.clear()
                    obj.update(fresh)
        return changed
