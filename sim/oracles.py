"""Oracles: C07 invariants T0-T9 over the recorded history of one operation,
C08 refinement P1-P8 against the reference model.  (DESIGN 3, 4)"""
import math

import numpy as np

from .core import SimBudget, digest_field, tol, ulp



def feq(a, b):
    """Float equality that treats NaN as equal to NaN (bit-identity is what matters)."""
    a, b = float(a), float(b)
    return a == b or (a != a and b != b)


def okey(o):
    """NaN-safe comparison key of a field observation (digest, time, it)."""
    return None if o is None else (o[0], float(o[1]).hex(), o[2])


def expected_tick(ex, r, s):
    """Per-cell time step for the state a step starts from, evaluated by the harness
    itself (tick table, or the real calc_timestep on a fresh unrecorded discretisation):
    a pure function of (state, cfl), independent of when or how often the driver asks."""
    if s.etick is None:
        if ex.world.ticks is not None:
            s.etick = np.array(ex.world.ticks.tick(s.t_in, r.cfl), dtype=float)
        else:
            from .world import ffield
            disc = ex.oracle_disc()
            f = ffield.fdata(disc.model, ex.world.mesh, [np.array(d, copy=True) for d in s.data_in], t=s.t_in)
            f.data = [np.array(d, copy=True) for d in s.data_in]
            with np.errstate(all="ignore"):
                s.etick = np.array(disc.calc_timestep(f, r.cfl), dtype=float)
    return s.etick


def state_index(r, full, s):
    """Index k of the trajectory state a (side) step starts from, by content (digest and
    time), independent of the order in which the driver computes things; falls back on the
    event order when the input is no trajectory state at all."""
    key = (s.dig_in, float(s.t_in).hex())
    if key == (r.f_before[0], float(r.f_before[1]).hex()):
        return 0
    for k in range(len(full), 0, -1):
        if (full[k - 1].dig_out, float(full[k - 1].t_out).hex()) == key:
            return k
    return len([x for x in full if x.idx < s.idx])


def near(a, b, *ref):
    """Times equal to within round-off (a snapshot may be re-stamped with the requested time)."""
    a, b = float(a), float(b)
    if a != a or b != b:
        return a != a and b != b
    return abs(a - b) <= tol(a, b, *ref)


class V:
    """One violation."""

    def __init__(self, prop, inv, opi, detail, trigger=None):
        self.prop = prop
        self.inv = inv
        self.opi = opi
        self.detail = detail
        self.trigger = trigger or ""

    def key(self):
        return (self.prop, self.inv)

    def as_dict(self):
        return {"property": self.prop, "invariant": self.inv, "op": self.opi,
                "detail": self.detail, "trigger": self.trigger}

    def __repr__(self):
        return "V(%s %s op%d %s)" % (self.prop, self.inv, self.opi, self.detail)


def _unexpected_exception(r):
    """Call raised something that was not injected (fault-free: any raise)."""
    if r.outcome != "raised":
        return None
    if r.exc_injected:
        return None
    return "%s: %s" % (type(r.exc).__name__, r.exc)


# ==========================================================================
# C07


def check_c07(r, ex, stats):
    """Return list of V for one completed or crashed operation."""
    out = []
    P = "C07"
    tr = r.trace
    cls = r.cls

    def bad(inv, detail, trigger=""):
        out.append(V(P, inv, r.i, detail, trigger or cls))

    # ---- T1: every completed step call advances time by dt (min of array) ----
    for s in tr.steps:
        if s.status != "ok":
            continue
        if not (math.isfinite(s.t_in) and math.isfinite(s.dtmin)):
            continue  # inadmissible input to step() (NaN time step from an unphysical state)
        stats["T1"] += 1
        exp = s.t_in + s.dtmin
        if not (math.isfinite(s.t_out) and abs(s.t_out - exp) <= tol(s.t_in, s.dtmin, s.t_out, exp)):
            bad("T1", "step(%s) from t=%r with dt=%r ended at t=%r (expected %r)" %
                (s.kind, s.t_in, s.dtmin, s.t_out, exp), "%s/%s" % (cls, "array" if s.dt_is_array else "scalar"))
            break
    if r.kind == "step":
        if r.outcome == "raised" and not r.exc_injected:
            if r.model_failed:
                stats["discard-singular"] += 1
            else:
                bad("T0", "direct step raised %s" % _unexpected_exception(r))
        return out

    # ---- T8: the caller's initial field is never modified (any outcome) -------
    stats["T8"] += 1
    if okey(r.f_before) != okey(r.f_after):
        bad("T8", "caller's initial field changed: %r -> %r" % (r.f_before, r.f_after),
            "%s/%s" % (cls, r.outcome))

    if tr.classified_by == "unknown":
        stats["discard-unclassifiable"] += 1
        return out
    if isinstance(r.exc, SimBudget) or tr.budget_hit:
        fin = all(s.finite_out for s in tr.steps if s.status == "ok") and \
            all(bool(np.all(np.isfinite(t.dt))) and t.dtmin > 0 for t in tr.ticks)
        # time a correct driver must have covered after that many ticks, each >= the smallest observed
        fsteps = [x for x in tr.steps if x.kind == "full"]
        nt = max(len(tr.ticks), len(fsteps))
        hs_obs = [t.dtmin for t in tr.ticks] + [x.dtmin for x in fsteps]
        hmin_obs = min(hs_obs) if hs_obs else 0.0
        if r.stop and "tottime" in r.stop:
            Tb = r.stop["tottime"]
        else:
            Tb = r.tsave[-1] if r.tsave else None
        mx = r.stop.get("maxit") if r.stop else None
        # (a time step below the resolution of the clock cannot advance it: `t + dt == t`; such a
        #  run - the aftermath of a blown-up state - legitimately never reaches its stop time)
        tref = max(abs(r.f_before[1]), abs(Tb) if Tb is not None else 0.0)
        resolvable = hmin_obs > 8 * ulp(tref)
        must_have_stopped = (mx is not None and mx < nt - 1) or \
            (Tb is not None and fin and resolvable and
             (Tb - r.f_before[1]) < (nt - 2) * hmin_obs * (1 - 1e-9))
        if fin and must_have_stopped:
            bad("T9", "call did not terminate within %d ticks on a finite trajectory (tottime=%r maxit=%r, smallest tick %r)" %
                (nt, Tb, mx, hmin_obs))
        elif fin:
            stats["discard-long"] += 1  # legitimately long run (tiny ticks): not a liveness failure
        else:
            stats["discard-nonfinite"] += 1  # NaN state: `time >= tottime` never holds; outside the property
        return out

    if r.outcome == "raised" and r.exc_injected:
        # interrupted call: a full step that was not completed is not counted, and at most
        # the one completed last may not have been counted yet
        try:
            ndone = len(ex.chain_steps(r))
        except Exception:  # noqa
            ndone = None
        stats["T6-crash"] += 1
        if ndone is not None and not (ndone - 1 <= r.nit <= ndone):
            bad("T6", "after an interrupted call nit()=%d but %d full steps were completed" % (r.nit, ndone),
                cls + "/crash-count")
        if r.totnit != r.itstart + r.nit:
            bad("T6", "after an interrupted call totnit()=%d, expected %d + %d" % (r.totnit, r.itstart, r.nit),
                cls + "/crash-count")
    if r.outcome == "raised":
        if not r.exc_injected:
            if isinstance(r.exc, np.linalg.LinAlgError) and (r.model_failed or ex.singular_in_model(r)):
                stats["discard-singular"] += 1  # the undisturbed trajectory is singular too
            else:
                bad("T0", "call raised %s on admissible input" % _unexpected_exception(r))
        return out

    full = tr.full_steps()
    side = tr.side_steps()
    N = len(full)
    t0 = r.f_before[1]
    times = [t0] + [s.t_out for s in full]
    traj_finite = all(s.finite_out for s in full)
    # the driver's documented default: stop at the last save time unless overridden
    if r.stop and "tottime" in r.stop:
        T = r.stop["tottime"]
    else:
        T = r.tsave[-1] if r.tsave else None
    maxit = r.stop.get("maxit") if r.stop else None
    # finiteness of the undisturbed (model) trajectory, when the executor has one
    ref_finite = None
    if r.candidates and not r.model_failed:
        label0, traj0, off0 = r.candidates[0]
        if off0 + N < len(traj0.states):
            ref_finite = all(bool(np.all(np.isfinite(d))) for st in traj0.states[off0:off0 + N + 1] for d in st.data)

    # ---- T6: counters and chain ----------------------------------------------
    stats["T6"] += 1
    if r.nit != N:
        bad("T6", "nit()=%d but %d full steps were taken" % (r.nit, N))
    if r.totnit != r.itstart + N:
        bad("T6", "totnit()=%d, expected itstart %d + %d" % (r.totnit, r.itstart, N), cls + "/totnit")
    prev = r.f_before[0]
    prev_t = t0
    ticks_bad = False
    for k, s in enumerate(full):
        if s.dig_in != prev or s.t_in != prev_t:
            bad("T6", "full step %d does not start from the previous trajectory state" % (k + 1), cls + "/chain")
            break
        et = expected_tick(ex, r, s)
        if not (bool(np.all(np.isfinite(et))) and float(np.min(et)) > 0):
            ticks_bad = True
            break
        if r.dtlocal:
            if not s.dt_is_array or not np.array_equal(s.dt, et):
                bad("T6", "full step %d under dtlocal does not use the per-cell time-step array of its state" % (k + 1), cls + "/dtlocal")
                break
        else:
            if s.dt_is_array or s.dt != float(np.min(et)):
                bad("T6", "full step %d uses dt=%r, the minimum over cells of the CFL time step of its state is %r" %
                    (k + 1, s.dtmin, float(np.min(et))), cls + "/dtmin")
                break
        prev, prev_t = s.dig_out, s.t_out
    if r.qn is not None and N > 0 and (r.qn[0] != full[-1].dig_out or r.qn[1] != full[-1].t_out):
        bad("T6", "final solver state is not the output of the last full step", cls + "/qn")

    ticks_ok = (not ticks_bad) and all(bool(np.all(np.isfinite(t.dt))) and t.dtmin > 0 for t in tr.ticks)
    if not ticks_ok:
        # unphysical state (negative pressure/height...): the time-step source itself
        # returned NaN/inf/<=0; nothing of T2-T7 is defined on such a trajectory
        stats["discard-badtick"] += 1
        return [v for v in out if v.inv in ("T1", "T8")]
    if not traj_finite or not all(math.isfinite(x) for x in times):
        if ref_finite and len(r.candidates) == 1:
            bad("T5", "trajectory became non-finite although the undisturbed trajectory from the same field is finite",
                cls + "/trajectory")
        stats["discard-nonfinite"] += 1
        return out

    # ---- T7: stops at the first step satisfying any criterion --------------------
    stats["T7"] += 1
    expN = None
    for k in range(0, len(times)):
        if (T is not None and times[k] >= T) or (maxit is not None and k >= maxit):
            expN = k
            break
    if expN is None:
        bad("T7", "stopped after %d steps at t=%r although no criterion is met (tottime=%r maxit=%r)" %
            (N, times[-1], T, maxit))
    elif expN != N:
        bad("T7", "took %d full steps, first criterion met after %d (tottime=%r maxit=%r)" % (N, expN, T, maxit))

    # ---- snapshots: T2-T5 ---------------------------------------------------------
    res = r.result
    # identify the fallback "final state only"
    snaps = list(res)
    fallback = None
    if len(res) >= 1:
        last = res[-1]
        if N >= 1:
            is_final = (last[0] == full[-1].dig_out and last[1] == full[-1].t_out)
        else:
            # no step at all: the current (= initial) state as the only entry is the same
            # fallback (whether an empty list or the state comes back then is left open)
            is_final = (last[0] == r.f_before[0] and feq(last[1], t0))
        produced = [s for s in side if s.dig_out == last[0] and near(s.t_out, last[1], t0)]
        if is_final and not produced and len(res) == 1:
            fallback = last
            if not any(abs(last[1] - sv) <= tol(sv, last[1], t0) for sv in r.tsave):
                snaps = []
    stats["T2"] += 1
    if N >= 1 and len(res) == 0:
        bad("T2", "call performed %d steps and returned nothing" % N, cls + "/empty")
    # required save times
    bound_hi = times[-1] if T is None else min(T, times[-1])
    required = []
    for sv in r.tsave:
        if sv < t0 or sv > bound_hi:
            continue
        if N >= 1 and sv > times[-2]:
            # last step: required only when both natural forms of the reach test agree
            h = full[-1].dtmin
            if not ((times[-2] + h) >= sv and (sv - times[-2]) <= h):
                continue
        required.append(sv)
    # match returned snapshots to requested times, in order
    j = 0
    matched = []
    ok_order = True
    for sn in snaps:
        found = None
        while j < len(r.tsave):
            sv = r.tsave[j]
            if abs(sn[1] - sv) <= tol(sv, sn[1], t0):
                found = sv
                j += 1
                break
            j += 1
        if found is None:
            ok_order = False
            bad("T2", "returned field at t=%r matches no requested save time in order (tsave=%r)" % (sn[1], r.tsave),
                cls + "/order")
            break
        matched.append(found)
    if ok_order:
        stats["T3"] += len(matched)
        missing = [sv for sv in required if sv not in matched]
        if missing:
            where = "start" if missing[0] == t0 else ("dense" if len(r.tsave) > 1 else "single")
            bad("T2", "no snapshot for requested time(s) %r (start %r, stop %r, steps %d, returned %r)" %
                (missing, t0, bound_hi, N, [x[1] for x in res]), "%s/missing-%s" % (cls, where))
    # T4/T5 per snapshot
    # trajectory state index at which each side step was taken
    for sn, sv in zip(snaps, matched):
        stats["T4"] += 1
        cand = [s for s in tr.steps if s.status == "ok" and s.kind == "side"
                and s.dig_out == sn[0] and near(s.t_out, sn[1], t0)]
        if sv == t0 and not cand:
            # no step: must be the initial state itself
            if sn[0] != r.f_before[0]:
                bad("T4a", "snapshot at the start time differs from the initial state", cls)
            continue
        if not cand:
            # could be the trajectory state itself (save time exactly on a reached boundary)
            onpath = [k for k in range(len(times)) if abs(times[k] - sn[1]) <= tol(times[k], sn[1], t0) and
                      ((k == 0 and sn[0] == r.f_before[0]) or (k > 0 and full[k - 1].dig_out == sn[0]))]
            if not onpath:
                bad("T4", "snapshot at t=%r was not produced by a step from the trajectory" % sn[1], cls + "/origin")
            continue
        s = cand[0]
        # state of the trajectory when the side step was taken
        k = state_index(r, full, s)
        cur_dig = r.f_before[0] if k == 0 else full[k - 1].dig_out
        cur_t = times[k]
        h = float(np.min(expected_tick(ex, r, s)))  # CFL step of the state the side step starts from
        if s.dig_in != cur_dig or s.t_in != cur_t:
            bad("T4", "side step to t=%r started from t=%r which is not the current trajectory state (t=%r)" %
                (sv, s.t_in, cur_t), cls + "/from")
        elif s.dt_is_array:
            # per-cell steps (local time stepping): every cell within its own CFL step, forward
            et = expected_tick(ex, r, s)
            okarr = s.dt.shape == et.shape and bool(np.all(s.dt >= -tol(sv, cur_t))) and \
                bool(np.all(s.dt <= et * (1 + 1e-12) + tol(h, sv, cur_t)))
            if not okarr:
                bad("T4", "side step to t=%r uses a per-cell time-step array exceeding the CFL steps of its state" % sv,
                    cls + "/array")
        elif not (-tol(sv, cur_t) <= s.dt <= h + tol(h, sv, cur_t)):
            kind = "backward" if s.dt < 0 else "long"
            bad("T4", "side step to t=%r from t=%r has length %r; CFL step is %r" % (sv, cur_t, s.dt, h),
                "%s/%s" % (cls, kind))
        if sv == t0:
            stats["T4a"] += 1
            if traj_finite and not all(bool(np.array_equal(a, b)) for a, b in zip(sn[4], r.f0.data)):
                bad("T4a", "snapshot at the start time differs from the initial state", cls)
        if (not s.dt_is_array) and s.dt <= 0 and s.dig_in == cur_dig and traj_finite:
            # save time already reached by the current state: nothing to integrate
            stats["T4a"] += 1
            if sn[0] != cur_dig:
                bad("T4a", "snapshot for a save time equal to the time of the current state (step length %r) "
                    "differs from that state" % s.dt, cls + "/dt0")
        elif traj_finite:
            stats["T5"] += 1
            if not sn[3]:
                # bookkeeping or overflow?  a fresh integrator copy taking the same step from the
                # same state decides: if that overflows too, the run is simply unstable
                ref_ok = None
                if r.candidates and not s.dt_is_array and not r.model_failed:
                    label0, traj0, off0 = r.candidates[0]
                    if off0 + k < len(traj0.states) and traj0.digs[off0 + k] == cur_dig:
                        try:
                            ref = traj0.side(off0 + k, s.dt)
                            ref_ok = all(bool(np.all(np.isfinite(d))) for d in ref.data)
                        except Exception:  # noqa
                            ref_ok = None
                if ref_ok:
                    bad("T5", "snapshot at t=%r is not finite although the trajectory is and a plain step of the "
                        "same length from the same state is" % sn[1], "%s/%s" % (cls, "dt"))
                else:
                    stats["T5-overflow-discard"] += 1
    # T3: stamps (matching above already bounds the error; make it explicit)
    for sn, sv in zip(snaps, matched):
        if abs(sn[1] - sv) > tol(sv, sn[1], t0):
            bad("T3", "snapshot stamped %r for requested %r" % (sn[1], sv))
    # T9 liveness in steps
    if traj_finite and T is not None and N > 0 and ex.world.ticks is not None and maxit is None:
        hmin = ex.world.ticks.hmin(r.cfl)
        bound = math.ceil(max(T - t0, 0.0) / hmin) + 2
        stats["T9"] += 1
        if N > bound:
            bad("T9", "took %d steps, bound is %d" % (N, bound))
    return out


# ==========================================================================
# C08


def check_c08(r, ex, stats):
    out = []
    P = "C08"
    cls = r.cls

    def bad(inv, detail, trigger=""):
        out.append(V(P, inv, r.i, detail, trigger or cls))

    # ---- P8: fields returned by / given to earlier calls keep their value -------
    stats["P8"] += 1
    for k, v in r.held_before.items():
        if okey(r.held_after.get(k)) != okey(v):
            bad("P8", "field %r held by the caller changed during op %d: %r -> %r" % (k, r.i, v, r.held_after.get(k)),
                cls + "/held")
            break
    if r.kind == "step":
        return out
    # ---- P9: monitor dictionaries that are not part of this call stay untouched ------
    stats["P9"] += 1
    if r.mon_foreign:
        bad("P9", "the call changed %s" % "; ".join(r.mon_foreign[:3]), cls + "/monitors")
    tr = r.trace
    if isinstance(r.exc, SimBudget):
        return out
    if tr.classified_by == "unknown":
        stats["discard-unclassifiable"] += 1
        return out
    if r.model_failed:
        stats["discard-singular"] += 1
        return out
    if r.outcome == "raised" and not r.exc_injected:
        if isinstance(r.exc, np.linalg.LinAlgError) and ex.singular_in_model(r):
            stats["discard-singular"] += 1
            return out
        bad("P0", "call raised %s on admissible input" % _unexpected_exception(r))
        return out
    full = tr.full_steps()
    N = len(full)
    crashed = r.outcome == "raised"

    # ---- P1: trajectory == model ----------------------------------------------------
    if r.candidates is None:
        stats["P1-unspecified"] += 1
        return out
    m = ex.match_of(r)
    if r.model_failed:
        stats["discard-singular"] += 1
        return out
    stats["P1"] += 1
    if m is None and r._snap_mismatch is not None:
        # some candidate explains the trajectory but none explains the snapshots too
        label, k, kk, why, d, tsn = r._snap_mismatch
        if why == "from":
            bad("P2", "snapshot %d was not taken from model state %d (%s)" % (k, kk, label), cls + "/from")
        else:
            bad("P2", "snapshot %d (t=%r) differs from a fresh step of the same length from trajectory state %d "
                "(%s): max|diff|=%.3e" % (k, tsn, kk, label, d), cls + "/value")
        return out
    if m is None:
        mm = r._mismatch
        hist = "first-call" if not [h for h in ex.solver_hist.get(r.s, []) if h[0] < r.i] else "after-history"
        bad("P1", "trajectory differs from the reference model (%s) at step %d: max|diff|=%.3e, t=%r vs %r; %s" %
            (mm[0], mm[1], mm[2], mm[3], mm[4], r.cand_note),
            "%s/%s/%s/%s" % (cls, r.kind, hist, "side" if tr.side_steps() else "noside"))
        return out
    label, traj, off = m
    stats["P1-" + label] += 1
    if not crashed:
        end = traj.states[off + N]
        if r.qn is not None and (r.qn[0] != digest_field(end) or float(r.qn[1]).hex() != float(end.time).hex()):
            bad("P1", "final solver state differs from model state %d" % N, cls + "/final")
    if crashed:
        _check_monitors(r, traj, off, N, stats, bad, prefix_ok=True)
        return out

    # ---- P2 (values: part of the candidate match above) and P4 tags of snapshots -------
    res = r.result
    side = tr.side_steps()
    t0 = r.f_before[1]
    for k, sn in enumerate(res):
        cand = [s for s in side if s.dig_out == sn[0] and near(s.t_out, sn[1], t0)]
        if cand:
            s = cand[0]
            kk = state_index(r, full, s)
            if s.dt_is_array or not (s.dt > 0):
                continue
            stats["P2"] += 1
            stats["P4"] += 1
            # tag of a snapshot taken during iteration kk+1 from state kk: the count of completed
            # iterations (today) or the iteration in progress - the statement fixes neither
            if sn[2] not in (r.itstart + kk, r.itstart + kk + 1):
                bad("P4", "snapshot %d carries it=%d, expected %d (= %d + %d full steps)" %
                    (k, sn[2], r.itstart + kk, r.itstart, kk), cls + "/snapshot-it")
        elif sn[1] == t0 and sn[0] == r.f_before[0] and k == 0 and any(sv == t0 for sv in r.tsave):
            stats["P4"] += 1
            if sn[2] != r.itstart:
                bad("P4", "snapshot of the initial state carries it=%d, expected %d" % (sn[2], r.itstart),
                    cls + "/start-it")
    # fallback final state: P4 tag = totnit
    if len(res) == 1 and not side and N >= 1:
        sn = res[0]
        end = traj.states[off + N]
        if sn[0] == digest_field(end) and feq(sn[1], end.time):
            stats["P4"] += 1
            if sn[2] != r.itstart + N:
                bad("P4", "returned final state carries it=%d, expected cumulative count %d" % (sn[2], r.itstart + N),
                    cls + "/final-it")
    # ---- P3: split == single, bookkeeping part ---------------------------------
    if r.kind == "restart":
        stats["P3"] += 1
        if r.totnit != r.itstart + N:
            bad("P3", "cumulative count %d != %d + %d" % (r.totnit, r.itstart, N), cls + "/count")
        if label == "continue":
            stats["P3-continue"] += 1
    # ---- P5 monitors ----------------------------------------------------------------
    _check_monitors(r, traj, off, N, stats, bad, prefix_ok=False)
    return out


def _model_monitor_value(traj, idx, ent):
    with np.errstate(all="ignore"):
        return _model_monitor_value_(traj, idx, ent)


def _model_monitor_value_(traj, idx, ent):
    q = traj.states[idx]
    disc = traj.disc
    if ent["type"] == "residual":
        g = q
        res = disc.rhs(_with_model(g, disc))
        return float(disc.all_L2average(res))
    if ent["type"] == "data_average":
        g = _with_model(q, disc)
        return float(g.average(ent["data"]))
    return None


def _with_model(q, disc):
    from .world import deep_field_copy
    g = deep_field_copy(q)
    g.model = disc.model
    return g


def _check_monitors(r, traj, off, N, stats, bad, prefix_ok):
    for ent in r.mons:
        f = ent["frequency"]
        if not (len(ent["it"]) == len(ent["time"]) == len(ent["value"])):
            bad("P5", "monitor '%s': %d iterations, %d times and %d values recorded (entries must stay together)" %
                (ent["name"], len(ent["it"]), len(ent["time"]), len(ent["value"])), "%s/%s/%s/aligned" % (r.cls, ent["type"], ent["level"]))
            continue
        new_it = ent["it"][ent["before"]:]
        new_t = ent["time"][ent["before"]:]
        new_v = ent["value"][ent["before"]:]
        exp_it = [j for j in range(r.itstart, r.itstart + N + 1) if j % f == 0]
        stats["P5"] += 1
        trig = "%s/%s/%s" % (r.cls, ent["type"], ent["level"])
        if prefix_ok:
            # crashed call: a prefix of the expected entries, possibly one more
            # (the entry of the step that was being monitored when it crashed)
            nfull_max = N + 1
            exp_it2 = [j for j in range(r.itstart, r.itstart + nfull_max + 1) if j % f == 0]
            lb = ent.get("last_before")
            if new_it != exp_it2[:len(new_it)] and lb is not None and exp_it2 and exp_it2[0] == r.itstart \
                    and lb[0] == r.itstart and new_it == exp_it2[1:][:len(new_it)]:
                exp_it2 = exp_it2[1:]   # restart joint not recorded twice (left open by the statement)
                exp_it = [j for j in exp_it if j != r.itstart]
            if new_it != exp_it2[:len(new_it)]:
                bad("P5", "monitor '%s' of a crashed call recorded iterations %r, not a prefix of %r" %
                    (ent["name"], new_it, exp_it2), trig + "/crash")
                continue
            n = min(len(new_it), len([j for j in exp_it if j - r.itstart <= N]))
        else:
            lb = ent.get("last_before")
            if new_it != exp_it and lb is not None and exp_it and exp_it[0] == r.itstart and \
                    new_it == exp_it[1:] and lb[0] == r.itstart and feq(lb[1], traj.states[off].time):
                # the record of the starting state is already the last entry of this output
                # (restart joint): recording it again or not is left open by the statement
                ev0 = _model_monitor_value(traj, off, ent)
                if lb[2] == ev0 or (math.isnan(lb[2]) and math.isnan(ev0)):
                    exp_it = exp_it[1:]
                    stats["P5-joint-not-duplicated"] += 1
            if new_it != exp_it:
                bad("P5", "monitor '%s' (frequency %d) recorded iterations %r, expected %r" %
                    (ent["name"], f, new_it, exp_it), trig + "/it")
                continue
            n = len(new_it)
        for a in range(n):
            j = new_it[a]
            k = off + (j - r.itstart)
            if k >= len(traj.states):
                break
            if not feq(new_t[a], traj.states[k].time):
                bad("P5", "monitor '%s' entry it=%d has time %r, state time is %r" %
                    (ent["name"], j, new_t[a], float(traj.states[k].time)), trig + "/time")
                break
            ev = _model_monitor_value(traj, k, ent)
            # the value of that state, to round-off (another summation order is no defect)
            same = (new_v[a] == ev) or (math.isnan(new_v[a]) and math.isnan(ev)) or \
                (math.isfinite(ev) and math.isfinite(new_v[a]) and abs(new_v[a] - ev) <= 1e-9 * max(abs(ev), 1e-300))
            if not same:
                bad("P5", "monitor '%s' entry it=%d has value %r, state value is %r" %
                    (ent["name"], j, new_v[a], ev), trig + "/value")
                break
