"""Evidence file writer (EVIDENCE.schema.json, level exploration)."""
import json
import os

VERIF = os.path.dirname(os.path.dirname(os.path.abspath(__file__)))

COMPONENTS = {
    "real code (imported from /repo working tree, unmodified)": [
        "flowdyn.integration: solve, restart, _solve, step of all 15 integrator classes, monitors dispatch, stop criteria",
        "flowdyn.field.fdata / fieldlist", "flowdyn.monitors.monitor",
        "flowdyn.modeldisc.fvm1d + models convection, burgers, euler1d (hllc/hlle), shallowwater1d (hll/rusanov), xnum extrapol1/3, muscl (modes real and hybrid)",
        "numpy.linalg.solve behind a counting/fault shim", "numpy.save into the storage stub"],
    "stub": [
        "SimDisc: rhs/calc_timestep/all_L2average/nelem seam with a small linear or quadratic RHS (mode stub)",
        "TickTable: scheduler-owned time-step source, pure function of (field time, cfl) (modes stub and hybrid)",
        "integration.myclock: simulator clock (normal / backwards / NaN / huge / jumping)",
        "flush target: in-memory sink that can fail (ENOSPC) or short-write"],
    "not simulated": ["matplotlib plotting", "solve_legacy", "fvm2d discretisation", "flowdyn.solution"],
}


def write_evidence(prop, tier, seed, nruns, rows, stats, sigs, logs, simtime, samples, det, head, dirty, fpath,
                   viol_rows, unmatched, known_hits, reported, harness, wall, batch_wall, nproc):
    fired = {k[6:]: v for k, v in sorted(stats.items()) if k.startswith("fired:")}
    phases = {k[11:]: v for k, v in sorted(stats.items()) if k.startswith("faultphase:")}
    probes = {k[6:]: v for k, v in sorted(stats.items()) if k.startswith("probe:")}
    cands = {k[5:]: v for k, v in sorted(stats.items()) if k.startswith("cand:")}
    inv = {k: v for k, v in sorted(stats.items())
           if k[:1] in ("T", "P") and (k[1:2].isdigit())}
    expected_probes = [
        "save==start", ">=2 saves inside one step", "save bit-exactly on a step boundary", "save in last step",
        "zero-iteration call", "maxit and tottime met in the same step",
        "restart right after a call on the same object", "restart after an intervening call",
        "dtlocal with non-uniform ticks", "interleaving over a shared discretisation", "flush written"]
    holes = [p for p in expected_probes if not probes.get(p)]
    nsim = stats.get("runs:ff", 0) + stats.get("runs:fault", 0)
    cov = {
        "evaluations": int(nruns),
        "distinct_nontrivial": int(len(sigs)),
        "rule": ("each evaluation is one seeded simulated run: a schedule document generated from (VERIF_SEED, property, run index) "
                 "- world (1-3 solver objects of 15 integrator classes, real/hybrid/stub discretisation, models, mesh, tick table), "
                 "1-6 operations solve/restart/step with symbolic save-time and stop placements, monitors, directives, and a fault plan - "
                 "executed fault-free with the strict oracle and, when it has a fault plan or a skewed clock, a second time with faults injected. "
                 "distinct = distinct schedule signature (mode, model, integrator classes, sharing, per op: kind, solver, field origin, stop kind, "
                 "multiset of save placement classes, monitors, directives, flush, outcome, min(full steps,3), min(side steps,3)); "
                 "non-trivial = at least one full step and at least one of {side step, second call, fired fault}"),
        "samples": samples[:3] if samples else [{"note": "no non-trivial passing run to show"}],
        "simulated_executions": int(nsim),
        "fault_free_passes": int(stats.get("runs:ff", 0)),
        "fault_passes": int(stats.get("runs:fault", 0)),
        "distinct_event_logs": int(len(logs)),
        "runs_per_hour": int(nruns / max(batch_wall, 1e-9) * 3600),
        "seeds_per_hour": "one seed per invocation; every run index is its own sub-seed sha256(seed, property, run): %d sub-seeds/hour" % int(nruns / max(batch_wall, 1e-9) * 3600),
        "workers": nproc,
        "simulated_time": {"full_steps": int(stats.get("full_steps", 0)), "side_steps": int(stats.get("side_steps", 0)),
                           "driver_calls": int(stats.get("sim_calls", 0)),
                           "model_time_units": round(float(simtime), 3)},
        "faults_fired": fired,
        "fault_phase": phases,
        "reach_probes": probes,
        "coverage_holes": holes,
        "continuation_semantics_used": cands,
        "invariant_evaluations": inv,
        "discarded_nonfinite": int(stats.get("discard-nonfinite", 0)),
        "determinism_selftest": det,
        "components": COMPONENTS,
        "flowdyn_module": fpath,
        "repo_head": head,
        "repo_dirty": dirty,
        "violating_runs": len(viol_rows),
        "violating_runs_matching_known_findings": len(viol_rows) - len(unmatched),
        "known_findings_hit": [k for k in known_hits],
        "reported": reported,
        "harness_errors": len(harness),
    }
    ev = {
        "property_id": prop,
        "tier": tier,
        "seed": int(seed),
        "level": "exploration",
        "coverage": cov,
        "assumptions": [
            "numpy/BLAS are deterministic for identical inputs on this machine",
            "the recording seams (discretisation proxy, integrator subclass, module-global clock, file-like flush) do not change behaviour",
            "SHA-1 content digests do not collide",
            "C08 only: integrator.step() and rhs() themselves are trusted (the reference model re-uses them)",
            "sampling: a clean batch is evidence, not proof",
        ],
        "wall_s": round(wall, 2),
        "violations": len(unmatched),
    }
    os.makedirs(os.path.join(VERIF, "evidence"), exist_ok=True)
    with open(os.path.join(VERIF, "evidence", prop + ".json"), "w") as fh:
        json.dump(ev, fh, indent=1, sort_keys=False, default=str)
