"""One simulated run = fault-free pass (strict oracle) + optional fault pass."""
import collections
import copy

from .core import unhex
from .execute import Executor
from .oracles import check_c07, check_c08

ORACLES = {"C07": check_c07, "C08": check_c08}


def _online(prop, stats):
    fn = ORACLES[prop]

    def go(r, ex):
        return fn(r, ex, stats)

    return go


def materialise_faults(sched, res):
    """Turn the symbolic fault plan into concrete (op, kind, n) triggers using the
    event counts measured in the fault-free pass.  Deterministic."""
    faults = []
    for pl in sched.get("fault_plan", []):
        j = pl["op"]
        if j >= len(res.records):
            continue
        r = res.records[j]
        tr = r.trace
        if tr is None:
            continue
        frac = unhex(pl["frac"])
        where = pl["where"]
        steps = tr.steps
        full = [s for s in steps if s.kind == "full"]
        side = [s for s in steps if s.kind == "side"]

        def rhs_in(sts):
            out = []
            for s in sts:
                if s.rhs1 is not None:
                    out.extend(range(s.rhs0 + 1, s.rhs1 + 1))
            return out

        cand = None
        kind = "rhs"
        if where == "first_step":
            cand = rhs_in(full[:1])
        elif where == "side":
            cand = rhs_in(side)
        elif where == "after_side":
            nxt = []
            for s in side:
                f = [x for x in full if x.idx > s.idx]
                if f:
                    nxt.append(f[0])
            cand = rhs_in(nxt)
        elif where == "last_step":
            cand = rhs_in(full[-1:])
        elif where == "jac":
            cand = [n + 1 for n, e in enumerate(tr.rhs) if "/jac" in e[2]]
        elif where == "monitor":
            cand = [n + 1 for n, e in enumerate(tr.rhs) if e[2] == "outside"]
        elif where == "tick":
            kind, cand = "tick", list(range(1, tr.counts["tick"] + 1))
        elif where == "linsolve":
            kind, cand = "linsolve", list(range(1, tr.counts["linsolve"] + 1))
        elif where == "stepend":
            kind, cand = "stepend", list(range(1, tr.counts["stepend"] + 1))
        elif where == "step":
            kind, cand = "step", list(range(1, tr.counts["step"] + 1))
        elif where == "alloc":
            kind, cand = "alloc", list(range(1, tr.counts["alloc"] + 1))
        elif where == "flush":
            kind, cand = "flushw", list(range(1, tr.counts["flushw"] + 1))
        if not cand:
            kind, cand = "rhs", list(range(1, tr.counts["rhs"] + 1))
        if not cand:
            kind, cand = "tick", list(range(1, tr.counts["tick"] + 1))
        if not cand:
            continue
        n = cand[min(int(frac * len(cand)), len(cand) - 1)]
        faults.append({"op": j, "kind": kind, "n": n, "exc": pl.get("exc", "fault"), "where": where})
    return faults


def signature(sched, res):
    w = sched["world"]
    sig = [sched.get("template"), w["mode"], w["model"]["kind"], tuple(s["cls"] for s in w["solvers"]),
           len({s["disc"] for s in w["solvers"]})]
    for op, r in zip(sched["ops"], res.records):
        if op["op"] == "step":
            sig.append(("step", op["s"], "array" if "array" in op["dt"] else "scalar"))
            continue
        kinds = tuple(sorted(p["k"] + (str(p.get("ulps", "")) if p["k"] in ("boundary", "sumboundary") else "")
                             for p in op.get("tsave", [])))
        mon = tuple(sorted((m.get("type", k), m.get("frequency", 10)) for k, m in (op.get("mon") or {}).items()))
        tr = r.trace
        sig.append((op["op"], op["s"], "res" if "res" in op["f"] else "init", op.get("stop_kind"),
                    op.get("stop_share") is not None, kinds, mon,
                    bool(op.get("dir")), op.get("flush"), r.outcome,
                    min(len(tr.full_steps()), 3), min(len(tr.side_steps()), 3)))
    return tuple(sig)


def simulate(sched, prop, want_records=False):
    """Execute the schedule; returns a plain dict (picklable)."""
    out = {"violations": [], "harness_error": None, "stats": None, "pass": None}
    stats = collections.Counter()
    # ---- pass 1: fault free, strict ------------------------------------------
    ex = Executor(sched, with_faults=False, online=_online(prop, stats))
    res = ex.run()
    out["digest_ff"] = res.log_digest
    _account(out, stats, sched, res, ex, "ff")
    if res.harness_error:
        out["harness_error"] = res.harness_error
        out["pass"] = "fault-free"
    elif res.violations:
        out["violations"] = [v.as_dict() for v in res.violations]
        out["pass"] = "fault-free"
    if want_records:
        out["_res_ff"] = res
    need_fault_pass = bool(sched.get("fault_plan")) or bool(sched.get("faults")) or \
        sched["world"].get("clock", "normal") != "normal"
    if out["violations"] or out["harness_error"] or not need_fault_pass:
        out["stats"] = dict(stats)
        return out
    # ---- pass 2: with faults -----------------------------------------------------
    fs = copy.deepcopy(sched)
    if not fs.get("faults"):
        fs["faults"] = materialise_faults(sched, res)
    out["faults"] = fs["faults"]
    ex2 = Executor(fs, with_faults=True, online=_online(prop, stats))
    res2 = ex2.run()
    out["digest_fault"] = res2.log_digest
    _account(out, stats, fs, res2, ex2, "fault")
    if res2.harness_error:
        out["harness_error"] = res2.harness_error
        out["pass"] = "fault"
    elif res2.violations:
        out["violations"] = [v.as_dict() for v in res2.violations]
        out["pass"] = "fault"
    if want_records:
        out["_res_fault"] = res2
    out["stats"] = dict(stats)
    return out


def _account(out, stats, sched, res, ex, tag):
    """Reach probes and simulated-time accounting (measured, never configured)."""
    nfull = nside = 0
    simtime = 0.0
    nontrivial = False
    ncalls = 0
    fired = 0
    for r in res.records:
        tr = r.trace
        if tr is None:
            continue
        ncalls += 1
        full = tr.full_steps()
        side = tr.side_steps()
        nfull += len(full)
        nside += len(side)
        if full:
            dt = full[-1].t_out - full[0].t_in
            if dt == dt and abs(dt) != float("inf"):
                simtime += dt
        for k, n, e in tr.fired:
            fired += 1
            stats["fired:" + k] += 1
            ph = [x for x in res.events if x[1] == "fault"]
        for x in tr.fired:
            pass
        if r.kind != "step":
            t0 = r.f_before[1]
            if r.tsave and r.tsave[0] == t0:
                stats["probe:save==start"] += 1
            by_tick = collections.Counter(s.tick_idx for s in side)
            if any(v >= 2 for v in by_tick.values()):
                stats["probe:>=2 saves inside one step"] += 1
            times = [t0] + [s.t_out for s in full]
            if any(sv in times[1:] for sv in (r.tsave or [])):
                stats["probe:save bit-exactly on a step boundary"] += 1
            if full and any(times[-2] < sv <= times[-1] for sv in (r.tsave or [])) and len(times) >= 2:
                stats["probe:save in last step"] += 1
            if r.outcome == "returned" and not full:
                stats["probe:zero-iteration call"] += 1
            if r.stop and "maxit" in r.stop and "tottime" in r.stop and full and \
                    len(full) == r.stop["maxit"] and times[-1] >= r.stop["tottime"]:
                stats["probe:maxit and tottime met in the same step"] += 1
            if r.kind == "restart":
                hist = ex.solver_hist.get(r.s, [])
                prev = [h for h in hist if h[0] < r.i]
                if prev and prev[-1][1] == "completed" and r.f_ref[0] == "res" and r.f_ref[1] == prev[-1][0]:
                    stats["probe:restart right after a call on the same object"] += 1
                elif prev:
                    stats["probe:restart after an intervening call"] += 1
            if r.dtlocal and full and any(len(set(t.dt.tolist())) > 1 for t in tr.ticks):
                stats["probe:dtlocal with non-uniform ticks"] += 1
            if r.cand_note:
                stats["cand:" + r.cand_note] += 1
            if r.by_copy:
                stats["probe:initial field passed as field.copy()"] += 1
            if r.spec.get("stop_share") is not None:
                stats["probe:stop dictionary object re-used by a later call"] += 1
            if r.args_mutated:
                stats["probe:call modified its stop dictionary or save-time list"] += 1
            if r.flush_mode and r.outcome == "returned":
                stats["probe:flush written"] += 1
            if any(s.dt == 0 for s in side if not s.dt_is_array):
                stats["probe:zero-length side step"] += 1
            if any((not s.dt_is_array) and s.dt < 0 for s in side):
                stats["probe:backward side step"] += 1
        if r.outcome == "raised":
            stats["probe:op raised (%s)" % ("injected" if r.exc_injected else "not injected")] += 1
    for e in res.events:
        if e[1] == "fault":
            ph = e[5]
            cat = "outside"
            if "jac" in ph:
                cat = "inside Jacobian"
            elif ph.startswith("step"):
                cat = "inside step"
            stats["faultphase:%s/%s" % (e[2], cat)] += 1
    if tag == "fault" and sched["world"].get("clock", "normal") != "normal":
        stats["fired:clock-" + sched["world"]["clock"]] += 1
    shared = len({s["disc"] for s in sched["world"]["solvers"]}) < len(sched["world"]["solvers"])
    used = {r.s for r in res.records}
    if shared and len(used) > 1:
        stats["probe:interleaving over a shared discretisation"] += 1
    if nfull >= 1 and (nside >= 1 or ncalls >= 2 or fired >= 1):
        nontrivial = True
    if res.globals_changed:
        stats["probe:library-global mutable state changed by a run (restored)"] += 1
        for g in res.globals_changed[:3]:
            stats["globals:" + g] += 1
    if sched.get("template"):
        stats["probe:template " + sched["template"]] += 1
    stats["runs:" + tag] += 1
    stats["full_steps"] += nfull
    stats["side_steps"] += nside
    stats["sim_calls"] += ncalls
    out.setdefault("simtime", 0.0)
    out["simtime"] += simtime
    out.setdefault("nontrivial", False)
    out["nontrivial"] = out["nontrivial"] or nontrivial
    out["sig_" + tag] = repr(signature(sched, res))
    out.setdefault("model_hits", 0)
    out.setdefault("model_misses", 0)
    if ex.model is not None:
        out["model_hits"] += ex.model.hits
        out["model_misses"] += ex.model.misses
