"""World construction: meshes, models, discretisations (real or stub), traced
integrators, initial fields.  Everything is built from the JSON world spec so
that a schedule document fully determines the simulated system."""
import bisect
import math

import numpy as np

from .core import HarnessError, unhex, use_repo

use_repo()

import flowdyn.field as ffield  # noqa: E402
import flowdyn.integration as tnum  # noqa: E402
import flowdyn.mesh as fmesh  # noqa: E402
import flowdyn.mesh2d as fmesh2d  # noqa: E402
import flowdyn.modeldisc as fdisc  # noqa: E402
import flowdyn.modelphy.burgers as mburgers  # noqa: E402
import flowdyn.modelphy.convection as mconv  # noqa: E402
import flowdyn.modelphy.euler as meuler  # noqa: E402
import flowdyn.modelphy.shallowwater as mshw  # noqa: E402
import flowdyn.xnum as xnum  # noqa: E402

INTEGRATORS = [
    "explicit", "forwardeuler", "rk2", "rk2_heun", "rk3_heun", "rk3ssp", "rk4",
    "lsrk25bb", "lsrk26bb", "lsrk4",
    "implicit", "backwardeuler", "trapezoidal", "cranknicolson", "gear",
]
IMPLICIT = {"implicit", "backwardeuler", "trapezoidal", "cranknicolson", "gear"}
MULTISTEP = {"gear"}
# simplicity order used by the shrinker (first = simplest)
SIMPLICITY = INTEGRATORS

# rhs evaluations per step (for fault placement hints only)
STAGES = {"explicit": 1, "forwardeuler": 1, "rk2": 2, "rk2_heun": 2, "rk3_heun": 3,
          "rk3ssp": 3, "rk4": 4, "lsrk25bb": 5, "lsrk26bb": 6, "lsrk4": 4}


def integrator_class(name):
    try:
        return getattr(tnum, name)
    except AttributeError:
        raise HarnessError("integrator class %s not found in flowdyn.integration" % name)


# --------------------------------------------------------------------------
# scheduler-owned tick source


class TickTable:
    """tick(t, cfl) = cfl * H * m_j * w_j, j = index of the time segment of t.

    A pure function of (field time, cfl): faithful to the real calc_timestep,
    which is a pure function of (state, cfl), and independent of how often or in
    which order the driver or the reference model ask."""

    def __init__(self, spec, ncell):
        self.H = unhex(spec["H"])
        self.bp = [unhex(x) for x in spec["bp"]]
        self.m = [unhex(x) for x in spec["m"]]
        self.w = [np.array([unhex(x) for x in row], dtype=float) for row in spec["w"]]
        for row in self.w:
            if len(row) != ncell:
                raise HarnessError("tick weight row has wrong length")
            if not (row.min() == 1.0):
                raise HarnessError("tick weight row must have min 1.0")

    def tick(self, t, cfl):
        j = bisect.bisect_right(self.bp, t)
        m = self.m[j % len(self.m)]
        w = self.w[j % len(self.w)]
        return (cfl * self.H * m) * w

    def hmin(self, cfl):
        return cfl * self.H * min(self.m)


# --------------------------------------------------------------------------
# stub discretisation behind the 4-method seam used by the driver


class SimDisc:
    def __init__(self, model, mesh, spec):
        self.model = model
        self.mesh = mesh
        self.neq = model.neq
        self.nelem = mesh.ncell
        self.kind = spec["rhs"]
        self.lam = unhex(spec["lam"])
        self.mu = unhex(spec["mu"])

    def rhs(self, f):
        q = f.data[0]
        up = np.roll(q, 1)
        if self.kind == "linear":
            r = self.lam * q + self.mu * (up - q)
        else:
            r = self.lam * q * q + self.mu * (up - q)
        return [r]

    def calc_timestep(self, f, condition):  # only used without a tick table
        return condition * self.mesh.vol() / 1.0

    def all_L2average(self, qdata):
        qavg = [self.mesh.L2average(q) for q in qdata]
        return math.sqrt(np.average(np.square(qavg)))


class DiscProxy:
    """Transparent recording / fault proxy around a (real or stub) discretisation."""

    def __init__(self, inner, rec, ticks):
        self.__dict__["_inner"] = inner
        self.__dict__["_rec"] = rec
        self.__dict__["_ticks"] = ticks

    def __getattr__(self, name):
        return getattr(self.__dict__["_inner"], name)

    def __setattr__(self, name, value):
        setattr(self.__dict__["_inner"], name, value)

    def rhs(self, f):
        rec = self.__dict__["_rec"]
        if rec is not None:
            rec.on_rhs(f)
        return self.__dict__["_inner"].rhs(f)

    def calc_timestep(self, f, condition):
        rec = self.__dict__["_rec"]
        ticks = self.__dict__["_ticks"]
        if rec is not None:
            rec.on_tick_begin(f)
        if ticks is not None:
            dt = ticks.tick(f.time, condition)
        else:
            dt = self.__dict__["_inner"].calc_timestep(f, condition)
        if rec is not None:
            rec.on_tick(f, dt)
        return dt


# --------------------------------------------------------------------------
# traced integrator subclasses (public extension mechanism: subclassing)


def make_traced(cls, rec):
    ns = {}

    def step(self, f, dtloc):
        tok = rec.step_begin(self, f, dtloc)
        try:
            r = cls.step(self, f, dtloc)
        except BaseException as e:
            rec.step_abort(tok, e)
            raise
        rec.step_end(tok, f)
        return r

    ns["step"] = step
    has_inv = False
    if hasattr(cls, "solve_implicit"):
        try:
            import inspect
            has_inv = "invertion" in inspect.signature(cls.solve_implicit).parameters
        except (TypeError, ValueError):
            has_inv = False
    if has_inv:

        def solve_implicit(self, field, dtloc, *args, **kw):
            if args:
                args = (rec.linsolve,) + tuple(args[1:])
            else:
                kw["invertion"] = rec.linsolve
            return cls.solve_implicit(self, field, dtloc, *args, **kw)

        ns["solve_implicit"] = solve_implicit
    if hasattr(cls, "calc_jacobian"):

        def calc_jacobian(self, field, *args, **kw):
            rec.phase_push("jac")
            try:
                return cls.calc_jacobian(self, field, *args, **kw)
            finally:
                rec.phase_pop()

        ns["calc_jacobian"] = calc_jacobian
    T = type(cls.__name__, (cls,), ns)
    T.__module__ = cls.__module__
    return T


# --------------------------------------------------------------------------
# world


def deep_field_copy(f):
    """Harness-owned deep copy that does not rely on fdata.copy()."""
    g = ffield.fdata(f.model, f.mesh, [np.array(d, dtype=float, copy=True) for d in f.data],
                     t=f.time, it=f.it)
    g.data = [np.array(d, dtype=float, copy=True) for d in f.data]
    return g


class World:
    def __init__(self, spec, rec):
        self.spec = spec
        self.rec = rec
        self.mode = spec["mode"]
        self.mesh = self._mesh(spec["mesh"])
        self.ncell = self.mesh.ncell
        self.ticks = TickTable(spec["ticks"], self.ncell) if spec.get("ticks") else None
        ndisc = max(s["disc"] for s in spec["solvers"]) + 1
        self.discs = [self.make_disc(rec) for _ in range(ndisc)]
        self.model = self.discs[0].model
        self.solvers = []
        self.cmon = []
        for s in spec["solvers"]:
            cls = make_traced(integrator_class(s["cls"]), rec)
            disc = self.discs[s["disc"]]
            if s.get("cmon"):
                if spec.get("cmon_shared") and any(c is not None for c in self.cmon):
                    # callers build one dictionary and hand it to several constructors
                    cm = [c for c in self.cmon if c is not None][0]
                else:
                    cm = mon_dict(s["cmon"])
                self.cmon.append(cm)
                self.solvers.append(cls(self.mesh, disc, monitors=cm))
            else:
                self.cmon.append(None)
                self.solvers.append(cls(self.mesh, disc))
        self.fields = [self.make_field(fs, self.discs[0]) for fs in spec["fields"]]

    # -- pieces -----------------------------------------------------------
    @staticmethod
    def _mesh(ms):
        if ms["kind"] == "uni":
            return fmesh.unimesh(ncell=ms["ncell"], length=unhex(ms["length"]))
        if ms["kind"] == "refined":
            return fmesh.refinedmesh(ncell=ms["ncell"], length=unhex(ms["length"]),
                                     ratio=unhex(ms["ratio"]))
        if ms["kind"] == "uni2d":
            return fmesh2d.unimesh(ms["nx"], ms["ny"])
        raise HarnessError("mesh kind " + ms["kind"])

    def _model(self):
        m = self.spec["model"]
        k = m["kind"]
        if k == "convection":
            return mconv.model(unhex(m["a"]))
        if k == "burgers":
            return mburgers.model()
        if k == "euler":
            return meuler.model()
        if k == "shallowwater":
            return mshw.shallowwater1d()
        if k == "euler2d":
            return meuler.euler2d()
        if k == "nozzle":
            slope = unhex(m.get("slope", "0x1.3333333333333p-2"))
            return meuler.nozzle(sectionlaw=lambda x: 1.0 + slope * x)
        raise HarnessError("model kind " + k)

    def _num(self):
        n = self.spec.get("num", "extrapol1")
        if n == "extrapol1":
            return xnum.extrapol1()
        if n == "extrapol2":
            return xnum.extrapol2()
        if n == "extrapol3":
            return xnum.extrapol3()
        if n.startswith("muscl_"):
            return xnum.muscl(getattr(xnum, n[6:]))
        raise HarnessError("num " + n)

    def make_disc(self, rec):
        """A fresh discretisation of this world (shared mesh; own model object, except
        that the world's own discretisations may share one model object like callers do)."""
        if rec is not None and self.spec.get("share_model"):
            if getattr(self, "_shared_model", None) is None:
                self._shared_model = self._model()
            model = self._shared_model
        else:
            model = self._model()
        if self.mode == "stub":
            inner = SimDisc(model, self.mesh, self.spec["stub"])
        elif self.spec["model"]["kind"] == "euler2d":
            n = self.spec.get("num", "extrapol2d1")
            num = xnum.extrapol2d1() if n == "extrapol2d1" else xnum.extrapol2dk(1. / 3.)
            bcper = {"type": "per"}
            inner = fdisc.fvm2d(model, self.mesh, num=num, numflux=self.spec["model"].get("flux"),
                                bclist={tag: bcper for tag in self.mesh.list_of_bctags()})
        else:
            bcL, bcR = self._bcs()
            inner = fdisc.fvm1d(model, self.mesh, self._num(),
                                numflux=self.spec["model"].get("flux"), bcL=bcL, bcR=bcR)
        return DiscProxy(inner, rec, self.ticks)

    def _bcs(self):
        bc = self.spec.get("bc", "per")
        kind = self.spec["model"]["kind"]
        if bc == "per":
            return {"type": "per"}, {"type": "per"}
        if bc == "sym":
            return {"type": "sym"}, {"type": "sym"}
        if bc == "inout":
            return {"type": "insub", "ptot": 1.1, "rttot": 1.0}, {"type": "outsub", "p": 1.0}
        if bc == "dirichlet":
            if kind in ("convection", "burgers"):
                v = unhex(self.spec["fields"][0]["base"])
                return {"type": "dirichlet", "prim": [v]}, {"type": "dirichlet", "prim": [v]}
            u0 = unhex(self.spec["fields"][0].get("u0", "0x0p+0"))
            if kind == "shallowwater":
                return {"type": "dirichlet", "prim": [1.0, u0]}, {"type": "dirichlet", "prim": [1.0, u0]}
            return {"type": "dirichlet", "prim": [1.0, u0, 1.0]}, {"type": "dirichlet", "prim": [1.0, u0, 1.0]}
        raise HarnessError("bc " + bc)

    def make_field(self, fs, disc):
        if self.spec["model"]["kind"] == "euler2d":
            return self._make_field2d(fs, disc)
        x = self.mesh.centers()
        L = self.mesh.length
        base, amp, k = unhex(fs["base"]), unhex(fs["amp"]), fs["k"]
        prof = fs["profile"]
        if prof == "sin":
            s = np.sin(2 * k * np.pi / L * x)
        elif prof == "step":
            s = np.where(x > 0.5 * L, 1.0, -1.0)
        elif prof == "saw":
            s = 2.0 * (x / L) - 1.0
        else:
            raise HarnessError("profile " + prof)
        q = base + amp * s
        kind = self.spec["model"]["kind"]
        model = disc.model
        u0 = unhex(fs.get("u0", "0x0p+0"))
        if kind in ("convection", "burgers"):
            data = [q]
        elif kind in ("euler", "nozzle"):
            rho = q
            p = base + 0.5 * amp * s
            data = model.prim2cons([rho, u0 + 0 * q, p])
        elif kind == "shallowwater":
            data = model.prim2cons([q, u0 + 0 * q])
        else:
            raise HarnessError(kind)
        t0 = unhex(fs.get("t0", "0x0p+0"))
        if fs.get("t_int") and float(t0).is_integer():
            t0 = int(t0)
        if fs.get("scalar_init") and amp == 0.0:
            # constant state handed over as scalars: fdata expands them itself
            return ffield.fdata(model, self.mesh, [float(np.asarray(d).flat[0]) for d in data], t=t0, it=fs.get("it", -1))
        return ffield.fdata(model, self.mesh, [np.array(d, dtype=float) for d in data],
                            t=t0, it=fs.get("it", -1))


def _make_field2d(self, fs, disc):
    from flowdyn._data import datavector
    xc, yc = self.mesh.centers()
    base, amp, k = unhex(fs["base"]), unhex(fs["amp"]), fs["k"]
    u0 = unhex(fs.get("u0", "0x0p+0"))
    s = np.sin(2 * k * np.pi * xc) * np.cos(2 * np.pi * yc)
    rho = base + amp * s
    uv = datavector(0. * xc + u0, 0. * xc + 0.2)
    p = base + 0.5 * amp * s
    data = disc.model.prim2cons([rho, uv, p])
    return ffield.fdata(disc.model, self.mesh, [np.array(d, dtype=float) for d in data],
                        t=unhex(fs.get("t0", "0x0p+0")), it=fs.get("it", -1))


World._make_field2d = _make_field2d


def mon_dict(spec):
    """Build a caller-style monitors dictionary from its JSON spec."""
    d = {}
    for name in sorted(spec):
        ms = spec[name]
        e = {}
        if "type" in ms:
            e["type"] = ms["type"]
        if "frequency" in ms:
            e["frequency"] = ms["frequency"]
        if "data" in ms:
            e["data"] = ms["data"]
        d[name] = e
    return d


MON_DATA = {
    "convection": ["q"],
    "burgers": [],
    "euler": ["density", "pressure", "mach", "velocity", "massflow"],
    "shallowwater": ["height", "velocity", "massflow"],
    "euler2d": ["density", "pressure", "mach", "velocity_x", "velocity_y"],
    "nozzle": ["density", "pressure", "mach", "velocity", "massflow"],
}
