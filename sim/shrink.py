"""Delta-debugging shrinker over the JSON schedule (DESIGN 2.7).

A candidate is kept when the *same invariant of the same property* still fails;
ops referencing results of removed ops are re-pointed deterministically."""
import copy

from .core import fhex
from .run import simulate
from .world import SIMPLICITY


def _fails(sched, prop, inv, budget):
    if budget[0] <= 0:
        return None
    budget[0] -= 1
    try:
        o = simulate(sched, prop)
    except Exception:  # noqa
        return None
    if o["harness_error"]:
        return None
    for v in o["violations"]:
        if v["invariant"] == inv:
            return o
    return None


def _drop_op(sched, j):
    s = copy.deepcopy(sched)
    del s["ops"][j]
    for op in s["ops"]:
        for key in ("stop_share", "tsave_share"):
            if op.get(key) is not None:
                if op[key] == j:
                    op.pop(key)
                elif op[key] > j:
                    op[key] -= 1
        f = op["f"]
        if "res" in f:
            a, k = f["res"]
            if a == j:
                op["f"] = {"init": 0}
            elif a > j:
                op["f"] = {"res": [a - 1, k]}
    nf = []
    for f in s.get("faults", []):
        if f["op"] == j:
            continue
        f = dict(f)
        if f["op"] > j:
            f["op"] -= 1
        nf.append(f)
    s["faults"] = nf
    np_ = []
    for f in s.get("fault_plan", []):
        if f["op"] == j:
            continue
        f = dict(f)
        if f["op"] > j:
            f["op"] -= 1
        np_.append(f)
    s["fault_plan"] = np_
    return s


def shrink(sched, prop, inv, first_out, max_evals=600):
    """Return (minimised schedule, simulate() output of it, evaluations used)."""
    budget = [max_evals]
    best = copy.deepcopy(sched)
    best_out = first_out
    # freeze faults: concrete triggers only (replay must not depend on the plan)
    if first_out.get("pass") == "fault":
        best["faults"] = first_out.get("faults", best.get("faults", []))
        best["fault_plan"] = []
    else:
        best["faults"] = []
        best["fault_plan"] = []
        best["world"]["clock"] = "normal"
    best["alloc"] = any(f["kind"] == "alloc" for f in best["faults"])
    o = _fails(best, prop, inv, budget)
    if o is None:
        # freezing changed behaviour: keep the original
        return copy.deepcopy(sched), first_out, max_evals - budget[0]
    best_out = o

    def attempt(cand):
        nonlocal best, best_out
        o = _fails(cand, prop, inv, budget)
        if o is not None:
            best, best_out = cand, o
            return True
        return False

    changed = True
    rounds = 0
    while changed and budget[0] > 0 and rounds < 6:
        changed = False
        rounds += 1
        # 1. drop operations (last first)
        j = len(best["ops"]) - 1
        while j >= 0 and len(best["ops"]) > 1:
            if attempt(_drop_op(best, j)):
                changed = True
            j -= 1
        # 2. drop faults / clock
        for k in range(len(best.get("faults", [])) - 1, -1, -1):
            c = copy.deepcopy(best)
            del c["faults"][k]
            if attempt(c):
                changed = True
        if best["world"].get("clock", "normal") != "normal":
            c = copy.deepcopy(best)
            c["world"]["clock"] = "normal"
            if attempt(c):
                changed = True
        # 3. per-op simplifications
        for j in range(len(best["ops"])):
            op = best["ops"][j]
            if op["op"] == "step":
                continue
            for key in ("mon", "flush"):
                if op.get(key):
                    c = copy.deepcopy(best)
                    c["ops"][j].pop(key, None)
                    c["ops"][j].pop("mon_id", None) if key == "mon" else None
                    if attempt(c):
                        changed = True
            if best["ops"][j].get("dir"):
                c = copy.deepcopy(best)
                c["ops"][j]["dir"] = {}
                if attempt(c):
                    changed = True
            if best["ops"][j].get("tsave_type", "list") != "list":
                c = copy.deepcopy(best)
                c["ops"][j]["tsave_type"] = "list"
                if attempt(c):
                    changed = True
            # drop save times one by one
            k = len(best["ops"][j].get("tsave", [])) - 1
            while k >= 0:
                c = copy.deepcopy(best)
                del c["ops"][j]["tsave"][k]
                if not c["ops"][j]["tsave"] and not c["ops"][j].get("stop"):
                    c["ops"][j]["stop"] = {"maxit": max(1, c["ops"][j].get("horizon", 1))}
                    c["ops"][j]["stop_kind"] = "maxit"
                if attempt(c):
                    changed = True
                k -= 1
            # simpler stop
            st = best["ops"][j].get("stop")
            if st and len(st) == 2:
                for key in ("tottime", "maxit"):
                    c = copy.deepcopy(best)
                    del c["ops"][j]["stop"][key]
                    if attempt(c):
                        changed = True
                        break
            st = best["ops"][j].get("stop")
            if st and "maxit" in st and st["maxit"] > 1:
                for m in (1, 2, st["maxit"] // 2):
                    if m < st["maxit"]:
                        c = copy.deepcopy(best)
                        c["ops"][j]["stop"]["maxit"] = m
                        if attempt(c):
                            changed = True
                            break
            # field reference -> initial field
            if "res" in best["ops"][j]["f"]:
                c = copy.deepcopy(best)
                c["ops"][j]["f"] = {"init": 0}
                if attempt(c):
                    changed = True
            # world cfl
            if best["ops"][j].get("cfl") != best["world"]["cfl"]:
                c = copy.deepcopy(best)
                c["ops"][j]["cfl"] = best["world"]["cfl"]
                if attempt(c):
                    changed = True
        # 4. world simplifications
        w = best["world"]
        used = sorted({op["s"] % len(w["solvers"]) for op in best["ops"]})
        if len(used) < len(w["solvers"]):
            c = copy.deepcopy(best)
            remap = {old: new for new, old in enumerate(used)}
            c["world"]["solvers"] = [w["solvers"][i] for i in used]
            for op in c["ops"]:
                op["s"] = remap[op["s"] % len(w["solvers"])]
            if attempt(c):
                changed = True
        w = best["world"]
        for i, sv in enumerate(w["solvers"]):
            if sv.get("cmon"):
                c = copy.deepcopy(best)
                c["world"]["solvers"][i].pop("cmon")
                if attempt(c):
                    changed = True
        if len({s["disc"] for s in w["solvers"]}) < len(w["solvers"]):
            c = copy.deepcopy(best)
            for i, s in enumerate(c["world"]["solvers"]):
                s["disc"] = i
            if attempt(c):
                changed = True
        if len(w["fields"]) > 1:
            usedf = {op["f"].get("init", 0) % len(w["fields"]) for op in best["ops"] if "init" in op["f"]}
            if usedf == {0} or not usedf:
                c = copy.deepcopy(best)
                c["world"]["fields"] = w["fields"][:1]
                if attempt(c):
                    changed = True
        for key, val in (("t0", fhex(0.0)), ("it", -1)):
            for i, f in enumerate(best["world"]["fields"]):
                if f.get(key) != val:
                    c = copy.deepcopy(best)
                    c["world"]["fields"][i][key] = val
                    if attempt(c):
                        changed = True
        if best["world"].get("ticks") and (len(best["world"]["ticks"]["m"]) > 1 or len(best["world"]["ticks"]["w"]) > 1):
            c = copy.deepcopy(best)
            c["world"]["ticks"]["m"] = [fhex(1.0)]
            c["world"]["ticks"]["bp"] = []
            if attempt(c):
                changed = True
            c = copy.deepcopy(best)
            n = best["world"]["mesh"]["ncell"]
            c["world"]["ticks"]["w"] = [[fhex(1.0)] * n]
            if attempt(c):
                changed = True
        # fewer cells (uniform meshes only; tick weight rows follow)
        m = best["world"]["mesh"]
        if m["kind"] == "refined":
            c = copy.deepcopy(best)
            c["world"]["mesh"] = {"kind": "uni", "ncell": m["ncell"], "length": m["length"]}
            if attempt(c):
                changed = True
        m = best["world"]["mesh"]
        lo = 2 if best["world"]["mode"] == "stub" else 3
        if m["kind"] == "uni" and m["ncell"] > lo:
            for n in (lo, max(lo, m["ncell"] // 2)):
                if n < m["ncell"]:
                    c = copy.deepcopy(best)
                    c["world"]["mesh"]["ncell"] = n
                    c["world"]["mesh"]["length"] = fhex(n * 0.125)
                    if c["world"].get("ticks"):
                        c["world"]["ticks"]["w"] = [row[:n] if float.fromhex(min(row[:n], key=float.fromhex)) == 1.0
                                                    else [fhex(1.0)] * n for row in c["world"]["ticks"]["w"]]
                    if attempt(c):
                        changed = True
                        break
        # simpler integrator within the family
        for i, sv in enumerate(best["world"]["solvers"]):
            for name in SIMPLICITY:
                if name == sv["cls"]:
                    break
                c = copy.deepcopy(best)
                c["world"]["solvers"][i]["cls"] = name
                if attempt(c):
                    changed = True
                    break
        # shorter horizon (placements are clamped to it by the executor)
        for j in range(len(best["ops"])):
            op = best["ops"][j]
            n = op.get("horizon", 0)
            if op["op"] == "step" or n <= 1:
                continue
            for n2 in (1, 2, n // 2):
                if n2 < n:
                    c = copy.deepcopy(best)
                    o2 = c["ops"][j]
                    o2["horizon"] = n2
                    for pl in o2.get("tsave", []):
                        if "i" in pl:
                            pl["i"] = min(pl["i"], n2)
                        if "n" in pl:
                            pl["n"] = min(pl["n"], n2)
                    st = o2.get("stop") or {}
                    if isinstance(st.get("tottime"), dict) and "i" in st["tottime"]:
                        st["tottime"]["i"] = min(st["tottime"]["i"], n2)
                    if "maxit" in st:
                        st["maxit"] = min(st["maxit"], n2 + 1)
                    if attempt(c):
                        changed = True
                        break
        # real/hybrid -> stub world
        if best["world"]["mode"] != "stub":
            for rhs, model in (("linear", {"kind": "convection", "a": fhex(1.0)}), ("quadratic", {"kind": "burgers"})):
                c = copy.deepcopy(best)
                w = c["world"]
                n = min(w["mesh"]["ncell"], 4)
                w["mode"] = "stub"
                w["model"] = model
                w["mesh"] = {"kind": "uni", "ncell": n, "length": fhex(n * 0.125)}
                w["stub"] = {"rhs": rhs, "lam": fhex(-0.25), "mu": fhex(1.0)}
                w["ticks"] = {"H": fhex(0.0625), "bp": [], "m": [fhex(1.0)], "w": [[fhex(1.0)] * n]}
                w.pop("num", None)
                for f in w["fields"]:
                    f["base"], f["amp"] = fhex(1.0), fhex(0.5)
                for op in c["ops"]:
                    for e in (op.get("mon") or {}).values():
                        if e.get("type", "") == "data_average" or "data" in e:
                            e["type"] = "residual"
                            e.pop("data", None)
                    if "data_average" in (op.get("mon") or {}):
                        op["mon"]["residual"] = op["mon"].pop("data_average")
                        op["mon"]["residual"].pop("data", None)
                for sv in w["solvers"]:
                    sv.pop("cmon", None)
                if attempt(c):
                    changed = True
                    break
        # real/hybrid -> simpler numerics
        if best["world"].get("num", "extrapol1") != "extrapol1":
            c = copy.deepcopy(best)
            c["world"]["num"] = "extrapol1"
            if attempt(c):
                changed = True
    return best, best_out, max_evals - budget[0]
