"""Batch driver: seeded search over many simulated runs, determinism self-test,
known-findings filter, shrinking, replay files, evidence."""
import argparse
import collections
import concurrent.futures as cf
import faulthandler
import hashlib
import json
import multiprocessing
import os
import re
import subprocess
import sys
import time

VERIF = os.path.dirname(os.path.dirname(os.path.abspath(__file__)))
DEFAULT_SEED = 20260925
TIERS = {
    # runs per property, determinism-selftest runs (per fresh interpreter), chunk
    "quick": {"runs": {"C07": 20000, "C08": 9000}, "det": 160, "chunk": 50, "shrink_evals": 500},
    "thorough": {"runs": {"C07": 600000, "C08": 300000}, "det": 3200, "chunk": 250, "shrink_evals": 1500},
}
CHUNK_TIMEOUT = 900


def _sig_hash(s):
    return hashlib.md5(s.encode()).hexdigest()[:16]


def work(args):
    """Worker: execute runs [start, start+count) of (seed, prop)."""
    seed, prop, start, count, keep_samples, depth = args
    faulthandler.dump_traceback_later(CHUNK_TIMEOUT - 30, exit=True)
    from sim.gen import generate
    from sim.run import simulate

    stats = collections.Counter()
    rows = []
    sigs = set()
    logs = set()
    simtime = 0.0
    samples = []
    for run in range(start, start + count):
        sched = generate(seed, prop, run, depth)
        try:
            o = simulate(sched, prop)
        except BaseException as e:  # noqa
            if isinstance(e, (KeyboardInterrupt, SystemExit)):
                raise
            import traceback
            o = {"violations": [], "harness_error": "simulate() raised %r\n%s" % (e, traceback.format_exc()),
                 "stats": {}, "pass": None}
        for k, v in (o.get("stats") or {}).items():
            stats[k] += v
        verdict = "ok"
        if o["harness_error"]:
            verdict = "harness"
        elif o["violations"]:
            verdict = "violation"
        row = {"run": run, "verdict": verdict, "ff": o.get("digest_ff"), "fault": o.get("digest_fault")}
        if verdict == "violation":
            row["violation"] = o["violations"][0]
            row["pass"] = o["pass"]
            row["faults"] = o.get("faults")
        if verdict == "harness":
            row["error"] = o["harness_error"][-3000:]
        rows.append(row)
        simtime += o.get("simtime", 0.0)
        if o.get("nontrivial"):
            sigs.add(_sig_hash((o.get("sig_ff") or "") + (o.get("sig_fault") or "")))
        if o.get("digest_ff"):
            logs.add(o["digest_ff"][:16])
        if o.get("digest_fault"):
            logs.add(o["digest_fault"][:16])
        if keep_samples and len(samples) < 3 and verdict == "ok" and o.get("nontrivial"):
            if (len(samples) < 2 and not o.get("faults")) or (o.get("faults") and not any(s.get("faults") for s in samples)):
                sc = dict(sched)
                sc["faults"] = o.get("faults") or []
                samples.append(sc)
    faulthandler.cancel_dump_traceback_later()
    return {"rows": rows, "stats": dict(stats), "sigs": sorted(sigs), "logs": sorted(logs),
            "simtime": simtime, "samples": samples}


def digest_only(prop, seed, start, count, depth=0):
    """Print one line per run: verdict and event-log digests (fresh interpreter)."""
    r = work((seed, prop, start, count, False, depth))
    for row in r["rows"]:
        print(row["run"], row["verdict"], row["ff"], row["fault"])


def _git_head():
    try:
        h = subprocess.run(["git", "-C", "/repo", "rev-parse", "HEAD"], capture_output=True, text=True).stdout.strip()
        d = subprocess.run(["git", "-C", "/repo", "status", "--porcelain", "--untracked-files=no"],
                           capture_output=True, text=True).stdout.strip()
        return h, bool(d)
    except Exception:  # noqa
        return None, None


def load_known():
    p = os.environ.get("VERIF_KNOWN_FINDINGS") or os.path.join(VERIF, "known_findings.json")  # (env: tests only)
    if not os.path.exists(p):
        return []
    return json.load(open(p))["findings"]


def match_known(v, known):
    for k in known:
        if k.get("status") != "open":
            continue
        if k["property"] != v["property"] or k["invariant"] != v["invariant"]:
            continue
        if re.search(k["trigger_re"], v.get("trigger", "")):
            return k
    return None


def determinism_selftest(prop, seed, ndet, pool_rows, nproc, tier="quick"):
    """Same runs in fresh interpreters under other PYTHONHASHSEEDs and another
    process layout; event-log digests must be identical."""
    t = time.time()
    per = max(1, -(-ndet // nproc))
    jobs = []
    for hs_i, hs in enumerate(("1", "4242")):
        for j in range(nproc):
            start = j * per
            if start >= ndet:
                break
            cnt = min(per, ndet - start)
            env = dict(os.environ)
            env["PYTHONHASHSEED"] = hs
            env["OPENBLAS_NUM_THREADS"] = "1"
            env["OMP_NUM_THREADS"] = "1"
            cmd = [sys.executable, os.path.join(VERIF, "check.py"), prop, "--digest-only", "--tier", tier,
                   "--seed", str(seed), "--start", str(start), "--count", str(cnt)]
            jobs.append((hs, start, cnt, subprocess.Popen(cmd, stdout=subprocess.PIPE, stderr=subprocess.PIPE,
                                                          text=True, env=env, cwd=VERIF)))
    got = {}
    errors = []
    for hs, start, cnt, p in jobs:
        try:
            o, e = p.communicate(timeout=CHUNK_TIMEOUT)
        except subprocess.TimeoutExpired:
            p.kill()
            errors.append("determinism subprocess timed out (start=%d)" % start)
            continue
        if p.returncode != 0:
            errors.append("determinism subprocess failed rc=%d: %s" % (p.returncode, e[-2000:]))
            continue
        for line in o.splitlines():
            parts = line.split()
            if len(parts) == 4:
                got.setdefault(int(parts[0]), []).append((hs, parts[1], parts[2], parts[3]))
    div = []
    compared = 0
    for run in range(ndet):
        ref = pool_rows.get(run)
        if ref is None:
            continue
        want = (ref["verdict"], str(ref["ff"]), str(ref["fault"]))
        for hs, verdict, ff, fault in got.get(run, []):
            compared += 1
            if (verdict, ff, fault) != want:
                div.append((run, hs, (verdict, ff, fault), want))
        if len(got.get(run, [])) < 2:
            errors.append("run %d not reproduced twice" % run) if len(errors) < 5 else None
    return {"runs": ndet, "comparisons": compared, "divergences": div[:5], "n_divergences": len(div),
            "errors": errors[:5], "wall_s": round(time.time() - t, 2),
            "layout": "pool of %d workers (inherited hash seed) vs 2 x fresh interpreters, PYTHONHASHSEED=1 and 4242, %d processes each" % (nproc, nproc)}


def main(argv=None):
    ap = argparse.ArgumentParser()
    ap.add_argument("prop", choices=["C07", "C08"])
    ap.add_argument("--tier", default=None)
    ap.add_argument("--seed", type=int, default=None)
    ap.add_argument("--runs", type=int, default=None)
    ap.add_argument("--workers", type=int, default=None)
    ap.add_argument("--digest-only", action="store_true")
    ap.add_argument("--start", type=int, default=0)
    ap.add_argument("--count", type=int, default=0)
    ap.add_argument("--no-evidence", action="store_true")
    ap.add_argument("--no-selftest", action="store_true")
    a = ap.parse_args(argv)
    os.environ.setdefault("OPENBLAS_NUM_THREADS", "1")
    os.environ.setdefault("OMP_NUM_THREADS", "1")
    seed = a.seed if a.seed is not None else int(os.environ.get("VERIF_SEED", DEFAULT_SEED))
    tier = a.tier or os.environ.get("VERIF_TIER") or "quick"
    if tier not in TIERS:
        tier = "quick"
    from sim.gen import DEPTH
    depth = DEPTH[tier]
    if a.digest_only:
        digest_only(a.prop, seed, a.start, a.count, depth)
        return 0
    cfg = TIERS[tier]
    nruns = a.runs or cfg["runs"][a.prop]
    nproc = a.workers or min(16, os.cpu_count() or 1)
    prop = a.prop
    t0 = time.time()
    print("VERIF_SEED=%d property=%s tier=%s runs=%d workers=%d" % (seed, prop, tier, nruns, nproc), flush=True)
    from sim.core import use_repo
    fpath = use_repo()
    head, dirty = _git_head()

    chunk = cfg["chunk"]
    tasks = []
    s = 0
    first = True
    while s < nruns:
        c = min(chunk, nruns - s)
        tasks.append((seed, prop, s, c, first, depth))
        first = False
        s += c
    rows = {}
    stats = collections.Counter()
    sigs = set()
    logs = set()
    simtime = 0.0
    samples = []
    harness = []
    ctx = multiprocessing.get_context("fork")
    try:
        with cf.ProcessPoolExecutor(max_workers=nproc, mp_context=ctx) as pool:
            futs = [pool.submit(work, t) for t in tasks]
            for f in futs:
                r = f.result(timeout=CHUNK_TIMEOUT)
                for row in r["rows"]:
                    rows[row["run"]] = row
                for k, v in r["stats"].items():
                    stats[k] += v
                sigs.update(r["sigs"])
                logs.update(r["logs"])
                simtime += r["simtime"]
                samples.extend(r["samples"])
    except (cf.TimeoutError, cf.process.BrokenProcessPool) as e:
        print("HARNESS-ERROR: worker pool failed: %r" % (e,), flush=True)
        return 2
    batch_wall = time.time() - t0
    for run in sorted(rows):
        if rows[run]["verdict"] == "harness":
            harness.append(rows[run])

    # ---- determinism self-test ---------------------------------------------------
    det = None
    if not a.no_selftest:
        det = determinism_selftest(prop, seed, min(cfg["det"], nruns), rows, nproc, tier)
        if det["n_divergences"] or det["errors"]:
            print("HARNESS-ERROR: determinism self-test failed: %s %s" % (det["divergences"], det["errors"]), flush=True)

    # ---- violations ------------------------------------------------------------------
    known = load_known()
    viol_rows = [rows[r] for r in sorted(rows) if rows[r]["verdict"] == "violation"]
    known_hits = collections.OrderedDict()
    unmatched = []
    for row in viol_rows:
        k = match_known(row["violation"], known)
        if k is not None:
            known_hits.setdefault(k["id"], [k, 0, row])
            known_hits[k["id"]][1] += 1
        else:
            unmatched.append(row)
    for kid, (k, n, row) in known_hits.items():
        print("KNOWN-FINDING: property=%s %s [%s; %d runs, e.g. run %d]" % (prop, k["what"], kid, n, row["run"]), flush=True)
    reported = []
    if unmatched:
        from sim.gen import generate
        from sim.run import simulate
        from sim.shrink import shrink
        seen_inv = set()
        replay_dir = os.environ.get("VERIF_REPLAY_DIR") or os.path.join(VERIF, "replays")
        os.makedirs(replay_dir, exist_ok=True)
        attempts = 0
        for row in unmatched:
            inv = row["violation"]["invariant"]
            if inv in seen_inv or len(seen_inv) >= 3 or attempts >= 25:
                continue
            attempts += 1
            seen_inv.add(inv)
            sched = generate(seed, prop, row["run"], depth)
            o = simulate(sched, prop)
            if not o["violations"]:
                print("HARNESS-ERROR: violation of run %d (%s) did not reproduce in the parent process: it depends on "
                      "what ran before in the worker process" % (row["run"], inv), flush=True)
                harness.append({"run": row["run"], "error": "violation did not reproduce in isolation"})
                seen_inv.discard(inv)
                continue
            if not any(x["invariant"] == inv for x in o["violations"]):
                inv = o["violations"][0]["invariant"]
            small, so, used = shrink(sched, prop, inv, o, cfg["shrink_evals"])
            v = [x for x in so["violations"] if x["invariant"] == inv][0]
            if match_known(v, known) is not None:
                small, so, v = sched, o, o["violations"][0]
                small = dict(small)
                small["faults"] = o.get("faults") or []
                small["fault_plan"] = [] if small["faults"] else small.get("fault_plan", [])
            path = os.path.join(replay_dir, "%s-%d-%d.json" % (prop, seed, row["run"]))
            doc = {"property": prop, "violation": v, "pass": so.get("pass"),
                   "log_digest": so.get("digest_fault") if so.get("pass") == "fault" else so.get("digest_ff"),
                   "found": {"seed": seed, "run": row["run"], "tier": tier}, "shrink_evaluations": used,
                   "ops_before": len(sched["ops"]), "ops_after": len(small["ops"]),
                   "repo_head": head, "repo_dirty": dirty, "schedule": small}
            with open(path, "w") as fh:
                json.dump(doc, fh, indent=1)
            print("VIOLATION property=%s replay=%s" % (prop, path), flush=True)
            print("  invariant %s: %s" % (v["invariant"], v["detail"]), flush=True)
            print("  (%d violating runs of %d; %d not matching a known finding)" % (len(viol_rows), nruns, len(unmatched)), flush=True)
            reported.append({"invariant": inv, "replay": path, "detail": v["detail"]})
    for h in harness[:3]:
        print("HARNESS-ERROR: run %s: %s" % (h["run"], h.get("error", "")[-1500:]), flush=True)

    wall = time.time() - t0
    # ---- evidence ------------------------------------------------------------------------
    if not a.no_evidence:
        from sim.evidence import write_evidence
        write_evidence(prop, tier, seed, nruns, rows, stats, sigs, logs, simtime, samples, det, head, dirty, fpath,
                       viol_rows, unmatched, known_hits, reported, harness, wall, batch_wall, nproc)
    ok = not unmatched and not harness and not (det and (det["n_divergences"] or det["errors"]))
    print("%s: %d runs, %d violating (%d known), %d harness errors, %.1fs" %
          ("PASS" if ok else "FAIL", nruns, len(viol_rows), len(viol_rows) - len(unmatched), len(harness), wall), flush=True)
    if reported:
        return 1
    if unmatched or harness or (det and (det["n_divergences"] or det["errors"])):
        return 2
    return 0
